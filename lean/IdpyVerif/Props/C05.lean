/-
C05 — scope never escalates across minting, refresh and exchange.
The history invariant (`Proofs/Scope.lean`: `SInv`, preserved by every API step) gives
`scope_bounded` for every reachable state; the decision-logic theorems say what each step does.
-/
import IdpyVerif.Proofs.Redeem
import IdpyVerif.Proofs.Scope
namespace Idpy.Props.C05
open Idpy Idpy.Provider

theorem isSubset_sub {a b : List Str} (h : isSubset a b = true) : Sub a b := by
  intro x hx
  simp only [isSubset, List.all_eq_true] at h
  simpa using h x hx

/-- the scope recorded for a grant is the request scope filtered by the client's allowed scopes -/
theorem grant_scope_authorised (cfg : Cfg) (client : Str) (scope : List Str) :
    Sub (filterScopes cfg client scope) scope ∧ Sub (filterScopes cfg client scope) (cfg.allowed client) := by
  constructor
  · intro x hx; exact (List.mem_filter.mp hx).1
  · intro x hx; simpa using (List.mem_filter.mp hx).2

theorem mint_none_ok {cfg : Cfg} {s : St} {g : Gr} {cls : Cls} {sc : Option (List Str)} {s' : St} {id : Nat}
    (h : mint cfg s g cls none sc = .ok s' id) :
    s'.toks = s.toks ++ [newTok cfg s g cls none (sc.getD g.scope)] ∧ s'.grants = s.grants ∧ id = s.next := by
  unfold mint at h
  split at h
  · simp at h
  · simp only [MintRes.ok.injEq] at h
    obtain ⟨rfl, rfl⟩ := h
    exact ⟨rfl, rfl, rfl⟩

/-- what an authorization step stores: a grant whose scope is the authorised set, and a code
    carrying exactly that scope -/
theorem authorize_stores_authorised (cfg : Cfg) (s : St) (user client : Str) (scope : List Str) (rd : Option Str)
    (c gid : Nat) (h : (step cfg s (.authorize user client scope rd)).2 = .code c gid) :
    ∃ g ∈ (step cfg s (.authorize user client scope rd)).1.grants, g.id = gid ∧
      g.scope = filterScopes cfg client scope ∧
      ∃ t ∈ (step cfg s (.authorize user client scope rd)).1.toks, t.id = c ∧ t.gid = gid ∧ t.scope = g.scope := by
  simp only [step] at h ⊢
  generalize hgdef : mkGrant cfg s user client scope rd = g at h ⊢
  have hgs : g.scope = filterScopes cfg client scope := by rw [← hgdef]; rfl
  have hgi : g.id = s.next := by rw [← hgdef]; rfl
  split at h
  · rename_i s2 c' hm
    simp only [Out.code.injEq] at h
    obtain ⟨rfl, hgid⟩ := h
    obtain ⟨ht, hg, hid⟩ := mint_none_ok hm
    simp only [hm]
    refine ⟨g, by rw [hg]; simp, hgid, hgs, ?_⟩
    refine ⟨_, by rw [ht]; exact List.mem_append_right _ (List.mem_singleton.mpr rfl), ?_, ?_, ?_⟩
    · rw [hid]; simp [newTok]
    · simp [newTok, hgid]
    · simp [newTok]
  · simp at h

/-- scope invariant restricted to one grant -/
def GrantScopeInv (s : St) (g : Gr) : Prop := ∀ t ∈ s.toks, t.gid = g.id → Sub t.scope g.scope

/-- `find_scope` never leaves the grant's scope (for lookups that stay inside the grant, which
    is what `Grant.get_token` does) -/
theorem findScope_sub (s : St) (g : Gr) (h : GrantScopeInv s g) (fuel : Nat) (b : Option Nat)
    (hb : ∀ (b' : Nat) (t : Tok), findTok s b' = some t → t.gid = g.id) :
    Sub (findScope s g fuel b) g.scope := by
  induction fuel generalizing b with
  | zero => intro x hx; simpa [findScope] using hx
  | succ f ih =>
    cases b with
    | none => intro x hx; simpa [findScope] using hx
    | some bb =>
      unfold findScope
      split
      · intro x hx; exact hx
      · rename_i t ht
        split
        · exact h t (findTok_mem ht).1 (hb bb t ht)
        · exact ih _

/-- refreshing with an explicit scope delivers only if that scope is within the bound computed
    by `find_scope` from the refresh token's ancestry — it can narrow, never widen -/
theorem refresh_never_widens (cfg : Cfg) (s : St) (client : Str) (rt : Nat) (sc : List Str)
    (code a r i : Option Nat) (out : List Str)
    (h : (step cfg s (.refresh client rt (some sc))).2 = .tokens code a r i out) :
    ∃ t g, findTok s rt = some t ∧ findGr s t.gid = some g ∧
      Sub sc (findScope s g (s.toks.length + 1) t.basedOn) ∧ out = sc := by
  simp only [step] at h
  split at h
  · simp at h
  · rename_i t ht
    split at h
    · simp at h
    · rename_i g hg
      split at h
      · simp at h
      · split at h
        · simp at h
        · split at h
          · simp at h
          · rename_i hbad
            split at h
            · simp at h
            · split at h
              · simp at h
              · simp at h
              · simp only [Out.tokens.injEq] at h
                refine ⟨t, g, ht, hg, ?_, by simpa using h.2.2.2.2.symm⟩
                apply isSubset_sub
                simpa [scopeBad] using hbad


/-! ### the history invariant -/

/-- **scope never escalates — for every history.** After ANY sequence of authorizations, code
    redemptions (parse / process interleaved), refreshes with or without an explicit scope,
    revocations, logouts, removals and clock advances, every token the provider holds — code,
    access, refresh, ID token, however long its minting chain — carries a scope within the scope
    recorded for its own grant -/
theorem scope_bounded (cfg : Cfg) (ops : List Op) :
    ∀ t ∈ (run cfg {} ops).1.toks, ∃ g ∈ (run cfg {} ops).1.grants, g.id = t.gid ∧ Sub t.scope g.scope := by
  intro t ht
  have h := run_sinv cfg ops {} sinv_init
  obtain ⟨g, hg, hid⟩ := (h.sc t ht).1
  exact ⟨g, hg, hid, (h.sc t ht).2 g hg hid⟩

/-- … and minting chains never leave their grant: the token a token is based on belongs to the same grant -/
theorem chains_stay_in_grant (cfg : Cfg) (ops : List Op) :
    ∀ t ∈ (run cfg {} ops).1.toks, ∀ b, t.basedOn = some b → ∀ bt ∈ (run cfg {} ops).1.toks, bt.id = b → bt.gid = t.gid :=
  (run_sinv cfg ops {} sinv_init).base

/-- what introspection reports for a token of a reachable state is within the grant's scope -/
theorem introspection_scope_bounded (cfg : Cfg) (ops : List Op) (client : Str) (tok : Nat) (sc : List Str)
    (h : (step cfg (run cfg {} ops).1 (.introspect client tok)).2 = .introspect true sc) :
    ∃ t g, findTok (run cfg {} ops).1 tok = some t ∧ findGr (run cfg {} ops).1 t.gid = some g ∧ Sub sc g.scope := by
  have hi := run_sinv cfg ops {} sinv_init
  generalize (run cfg {} ops).1 = s at h hi
  simp only [step] at h
  split at h
  · simp at h
  · rename_i t ht
    split at h
    · simp at h
    · rename_i g hg
      split at h
      · simp at h
      · split at h
        · simp at h
        · simp only [Out.introspect.injEq, true_and] at h
          have hgm := findGr_mem hg
          have htm := findTok_mem ht
          refine ⟨t, g, ht, hg, ?_⟩
          rw [← h]
          split
          · exact (hi.sc t htm.1).2 g hgm.1 hgm.2
          · exact findScope_sub' s hi g hgm.1 _ _ (fun b' hb' bt hbt => by
              have hbm := findTok_mem hbt
              rw [hi.base t htm.1 b' hb' bt hbm.1 hbm.2, hgm.2])

/-- the invariant is about something: the empty state satisfies it and it is carried along any run -/
example (cfg : Cfg) (ops : List Op) : SInv (run cfg {} ops).1 := run_sinv cfg ops {} sinv_init

end Idpy.Props.C05
