/-
C09 — the relying party binds every response to its own state, nonce and issuer.
-/
import IdpyVerif.Model.RPState
namespace Idpy.Props.C09
open Idpy Idpy.RPState

theorem lookup_put {β} (l : List (Str × β)) (k k' : Str) (v : β) :
    lookup (put l k v) k' = if k' = k then some v else lookup l k' := by
  induction l with
  | nil =>
    simp only [put, lookup, List.find?]
    by_cases h : k' = k
    · subst h; simp
    · have : ¬ k = k' := fun e => h e.symm
      simp [h, this]
  | cons e rest ih =>
    obtain ⟨a, b⟩ := e
    simp only [put]
    split
    · rename_i hn
      subst hn
      by_cases h : k' = a
      · subst h; simp [lookup, List.find?]
      · have : ¬ a = k' := fun e => h e.symm
        simp [lookup, List.find?, h, this]
    · rename_i hn
      by_cases h : a = k'
      · subst h
        have : ¬ a = k := hn
        simp [lookup, List.find?, this]
      · have ih' := ih
        simp only [lookup] at ih' ⊢
        simp only [List.find?, h, decide_false]
        exact ih'

@[simp] theorem check_some (b : Bool) (w : Unit) : check b = some w ↔ b = true := by
  unfold check; cases b <;> simp

/-- **a rejected response changes nothing** — not the record of the state it names, not any other
    session, not the nonce/sub bindings -/
theorem reject_is_noop (c : Client) (op : Op) (h : (step c op).2 = false) : (step c op).1 = c := by
  unfold step at h ⊢
  cases ht : tryStep c op with
  | none => rfl
  | some c' => rw [ht] at h; cases h

/-- what an accepted authorization response establishes -/
theorem authz_accept (c c' : Client) (r : AuthzResp) (h : tryStep c (.authz r) = some c') :
    mismatch r.clientIdParam c.clientId = false ∧ mismatch r.issParam c.issuer = false ∧
    ∃ s rec, r.state = some s ∧ lookup c.db s = some rec ∧ idtNonceBad r.idt rec.nonce = false ∧ rec.iss = c.issuer ∧
      c' = { c with db := put c.db s { rec with code := r.code.orElse (fun _ => rec.code), idt := r.idt.orElse (fun _ => rec.idt),
                                                accessToken := r.accessToken.orElse (fun _ => rec.accessToken) } } := by
  simp only [tryStep, bind, Option.bind_eq_some_iff, check_some, Bool.not_eq_true', beq_iff_eq] at h
  obtain ⟨_, h1, _, h2, s, hs, rec, hr, _, h3, _, h4, _, _, _, _, _, _, h5⟩ := h
  exact ⟨by simpa using h1, by simpa using h2, s, rec, hs, hr, by simpa using h3, by simpa using h4, by simpa using h5.symm⟩

/-- an accepted authorization response that carries an ID token: the access token and the code delivered beside it are the ones the
    token's `at_hash` / `c_hash` were computed over — both, whatever else the response carries -/
theorem authz_accept_hashes (c c' : Client) (r : AuthzResp) (t : IdT) (hi : r.idt = some t) (h : tryStep c (.authz r) = some c') :
    (∀ a, r.accessToken = some a → t.atHash = some a) ∧ (∀ k, r.code = some k → t.cHash = some k) ∧
      mismatch r.audParam c.clientId = false := by
  simp only [tryStep, bind, Option.bind_eq_some_iff, check_some, Bool.not_eq_true', beq_iff_eq] at h
  obtain ⟨_, _, _, _, s, _, rec, _, _, _, _, _, _, h6, _, h7, _, h8, _⟩ := h
  constructor
  · intro a ha
    rw [hi, ha] at h6
    simpa [hashBad] using h6
  constructor
  · intro k hk
    rw [hi, hk] at h7
    simpa [hashBad] using h7
  · simpa using h8

/-- a response parameter `aud` naming somebody else never switches the ID-token checks off: such a response is rejected as a whole -/
theorem aud_param_for_somebody_else_rejected (c : Client) (r : AuthzResp) (a : Str) (ha : r.audParam = some a) (hne : a ≠ c.clientId) :
    step c (.authz r) = (c, false) := by
  unfold step
  cases ht : tryStep c (.authz r) with
  | none => rfl
  | some c' =>
    simp only [tryStep, bind, Option.bind_eq_some_iff, check_some, Bool.not_eq_true', beq_iff_eq] at ht
    obtain ⟨_, _, _, _, s, _, rec, _, _, _, _, _, _, _, _, _, _, h8, _⟩ := ht
    rw [ha] at h8
    simp [mismatch, hne] at h8

/-- an access token of another flow beside a (hybrid) code and ID token is rejected, and nothing is recorded -/
theorem foreign_access_token_rejected (c : Client) (r : AuthzResp) (t : IdT) (a : Str) (hi : r.idt = some t) (ha : r.accessToken = some a)
    (hne : t.atHash ≠ some a) : step c (.authz r) = (c, false) := by
  unfold step
  cases ht : tryStep c (.authz r) with
  | none => rfl
  | some c' => exact absurd ((authz_accept_hashes c c' r t hi ht).1 a ha) hne

/-- unknown state: rejected -/
theorem unknown_state_rejected (c : Client) (r : AuthzResp) (s : Str) (hs : r.state = some s) (hu : lookup c.db s = none) :
    step c (.authz r) = (c, false) := by
  unfold step
  cases ht : tryStep c (.authz r) with
  | none => rfl
  | some c' =>
    obtain ⟨_, _, s', rec, hs', hr, _⟩ := authz_accept c c' r ht
    rw [hs] at hs'; cases hs'
    rw [hu] at hr; cases hr

/-- a response without state: rejected -/
theorem missing_state_rejected (c : Client) (r : AuthzResp) (hs : r.state = none) : step c (.authz r) = (c, false) := by
  unfold step
  cases ht : tryStep c (.authz r) with
  | none => rfl
  | some c' =>
    obtain ⟨_, _, s', rec, hs', _⟩ := authz_accept c c' r ht
    rw [hs] at hs'; cases hs'

/-- the `iss` / `client_id` response parameters naming another party: rejected -/
theorem iss_param_mismatch_rejected (c : Client) (r : AuthzResp) (i : Str) (hi : r.issParam = some i) (hne : i ≠ c.issuer) :
    step c (.authz r) = (c, false) := by
  unfold step
  cases ht : tryStep c (.authz r) with
  | none => rfl
  | some c' =>
    have := (authz_accept c c' r ht).2.1
    rw [hi] at this
    simp [mismatch, hne] at this

theorem client_id_param_mismatch_rejected (c : Client) (r : AuthzResp) (i : Str) (hi : r.clientIdParam = some i) (hne : i ≠ c.clientId) :
    step c (.authz r) = (c, false) := by
  unfold step
  cases ht : tryStep c (.authz r) with
  | none => rfl
  | some c' =>
    have := (authz_accept c c' r ht).1
    rw [hi] at this
    simp [mismatch, hne] at this

/-- what an accepted token response with an ID token establishes -/
theorem token_accept (c c' : Client) (s : Str) (r : TokenResp) (t : IdT) (hi : r.idt = some t) (h : tryStep c (.token s r) = some c') :
    ∃ rec n, lookup c.db s = some rec ∧ t.nonce = some n ∧ lookup c.map n = some s ∧ rec.nonce = some n ∧
      c' = { c with db := put c.db s { rec with accessToken := some r.accessToken, idt := some t }, map := put c.map t.sub s } := by
  simp only [tryStep, bind, Option.bind_eq_some_iff, hi] at h
  obtain ⟨rec, hr, n, hn, s', hm, _, h1, _, h2, h3⟩ := h
  have e1 : s' = s := by simpa using h1
  have e2 : rec.nonce = some n := by simpa using h2
  subst e1
  exact ⟨rec, n, hr, hn, hm, e2, by simpa using h3.symm⟩

/-- **cross-wired ID token**: an ID token whose nonce is not the one sent for the state the token
    response is processed for — the nonce of another pending flow, of another issuer's flow, an
    unknown one, none at all — is rejected, whatever the nonce/sub map says -/
theorem cross_nonce_rejected (c : Client) (s : Str) (r : TokenResp) (t : IdT) (rec : Rec)
    (hi : r.idt = some t) (hr : lookup c.db s = some rec) (hne : t.nonce ≠ rec.nonce ∨ t.nonce = none) :
    step c (.token s r) = (c, false) := by
  unfold step
  cases ht : tryStep c (.token s r) with
  | none => rfl
  | some c' =>
    obtain ⟨rec', n, hr', hn, _, hrn, _⟩ := token_accept c c' s r t hi ht
    rw [hr] at hr'; cases hr'
    rcases hne with h | h
    · exact absurd (hn.trans hrn.symm) h
    · rw [h] at hn; cases hn

/-- user info for a state with a recorded ID token must be about the same subject -/
theorem userinfo_other_subject_rejected (c : Client) (s sub : Str) (rec : Rec) (t : IdT)
    (hr : lookup c.db s = some rec) (hi : rec.idt = some t) (hne : t.sub ≠ sub) :
    step c (.userinfo s sub) = (c, false) := by
  unfold step
  cases ht : tryStep c (.userinfo s sub) with
  | none => rfl
  | some c' =>
    simp only [tryStep, bind, Option.bind_eq_some_iff, check_some] at ht
    obtain ⟨rec', hr', _, h1, _⟩ := ht
    rw [hr] at hr'; cases hr'
    simp [subBad, hi, hne] at h1

/-- the state an operation is about -/
def target : Op → Option Str
  | .begin s _ => some s
  | .authz r => r.state
  | .token s _ => some s
  | .userinfo s _ => some s

/-- **an accepted response is local**: only the record of its own state changes; every other
    session's data is what it was -/
theorem accept_is_local (c : Client) (op : Op) (s' : Str) (hne : target op ≠ some s') :
    lookup (step c op).1.db s' = lookup c.db s' := by
  unfold step
  cases ht : tryStep c op with
  | none => rfl
  | some c' =>
    simp only
    cases op with
    | begin s n =>
      simp only [tryStep, Option.some.injEq] at ht
      subst ht
      have : s' ≠ s := fun e => hne (by simp [target, e])
      simp [lookup_put, this]
    | authz r =>
      obtain ⟨_, _, s, rec, hs, _, _, _, hc⟩ := authz_accept c c' r ht
      subst hc
      have : s' ≠ s := fun e => hne (by simp [target, hs, e])
      simp [lookup_put, this]
    | token s r =>
      have : s' ≠ s := fun e => hne (by simp [target, e])
      cases hi : r.idt with
      | none =>
        simp only [tryStep, bind, Option.bind_eq_some_iff, hi] at ht
        obtain ⟨rec, _, hc⟩ := ht
        simp only [Option.some.injEq] at hc
        subst hc
        simp [lookup_put, this]
      | some t =>
        obtain ⟨rec, n, _, _, _, _, hc⟩ := token_accept c c' s r t hi ht
        subst hc
        simp [lookup_put, this]
    | userinfo s sub =>
      have : s' ≠ s := fun e => hne (by simp [target, e])
      simp only [tryStep, bind, Option.bind_eq_some_iff, check_some] at ht
      obtain ⟨rec, _, _, _, hc⟩ := ht
      simp only [Option.some.injEq] at hc
      subst hc
      simp [lookup_put, this]


/-- the keys of the shared nonce / sub map an operation may (re)bind -/
def mapKeys : Op → List Str
  | .begin _ n => [n]
  | .token _ r => match r.idt with | some t => [t.sub] | none => []
  | _ => []

/-- **bindings are local too**: an operation changes the nonce / sub map at most at the nonce it
    issues (begin) or at the subject of the ID token it accepts (token response) — and that key then
    points to the operation's own state -/
theorem map_is_local (c : Client) (op : Op) (k : Str) (hk : k ∉ mapKeys op) :
    lookup (step c op).1.map k = lookup c.map k := by
  unfold step
  cases ht : tryStep c op with
  | none => rfl
  | some c' =>
    simp only
    cases op with
    | begin s n =>
      simp only [tryStep, Option.some.injEq] at ht
      subst ht
      have : k ≠ n := fun e => hk (by simp [mapKeys, e])
      simp [lookup_put, this]
    | authz r =>
      obtain ⟨_, _, s, rec, _, _, _, _, hc⟩ := authz_accept c c' r ht
      subst hc; rfl
    | token s r =>
      cases hi : r.idt with
      | none =>
        simp only [tryStep, bind, Option.bind_eq_some_iff, hi] at ht
        obtain ⟨rec, _, hc⟩ := ht
        simp only [Option.some.injEq] at hc
        subst hc; rfl
      | some t =>
        obtain ⟨rec, n, _, _, _, _, hc⟩ := token_accept c c' s r t hi ht
        subst hc
        have : k ≠ t.sub := fun e => hk (by simp [mapKeys, hi, e])
        simp [lookup_put, this]
    | userinfo s sub =>
      simp only [tryStep, bind, Option.bind_eq_some_iff] at ht
      obtain ⟨rec, _, _, _, hc⟩ := ht
      simp only [Option.some.injEq] at hc
      subst hc; rfl

/-! ### over whole histories -/

/-- whatever ID token is recorded under a state carries the nonce that was sent for that state -/
def Inv (c : Client) : Prop :=
  ∀ s rec t n, lookup c.db s = some rec → rec.idt = some t → rec.nonce = some n → t.nonce = some n

theorem inv_step (c : Client) (op : Op) (h : Inv c) : Inv (step c op).1 := by
  unfold step
  cases ht : tryStep c op with
  | none => exact h
  | some c' =>
    simp only
    intro s0 rec0 t0 n0 hl hi hn
    cases op with
    | begin s n =>
      simp only [tryStep, Option.some.injEq] at ht
      subst ht
      simp only [lookup_put] at hl
      by_cases e : s0 = s
      · simp only [e, if_true, Option.some.injEq] at hl
        subst hl; cases hi
      · simp only [e, if_false] at hl
        exact h s0 rec0 t0 n0 hl hi hn
    | authz r =>
      obtain ⟨_, _, s, rec, hs, hr, hbad, _, hc⟩ := authz_accept c c' r ht
      subst hc
      simp only [lookup_put] at hl
      by_cases e : s0 = s
      · simp only [e, if_true, Option.some.injEq] at hl
        subst hl
        simp only at hi hn
        cases hri : r.idt with
        | none =>
          rw [hri] at hi
          simp only [Option.orElse] at hi
          exact h s rec t0 n0 hr hi hn
        | some t =>
          rw [hri] at hi
          simp only [Option.orElse, Option.some.injEq] at hi
          subst hi
          rw [hri, hn] at hbad
          simpa [idtNonceBad] using hbad
      · simp only [e, if_false] at hl
        exact h s0 rec0 t0 n0 hl hi hn
    | token s r =>
      cases hri : r.idt with
      | none =>
        simp only [tryStep, bind, Option.bind_eq_some_iff, hri] at ht
        obtain ⟨rec, hr, hc⟩ := ht
        simp only [Option.some.injEq] at hc
        subst hc
        simp only [lookup_put] at hl
        by_cases e : s0 = s
        · simp only [e, if_true, Option.some.injEq] at hl
          subst hl
          exact h s rec t0 n0 hr hi hn
        · simp only [e, if_false] at hl
          exact h s0 rec0 t0 n0 hl hi hn
      | some t =>
        obtain ⟨rec, n, hr, htn, _, hrn, hc⟩ := token_accept c c' s r t hri ht
        subst hc
        simp only [lookup_put] at hl
        by_cases e : s0 = s
        · simp only [e, if_true, Option.some.injEq] at hl
          subst hl
          simp only [Option.some.injEq] at hi hn
          subst hi
          rw [hrn] at hn
          rw [htn]; exact hn
        · simp only [e, if_false] at hl
          exact h s0 rec0 t0 n0 hl hi hn
    | userinfo s sub =>
      simp only [tryStep, bind, Option.bind_eq_some_iff] at ht
      obtain ⟨rec, hr, _, _, hc⟩ := ht
      simp only [Option.some.injEq] at hc
      subst hc
      simp only [lookup_put] at hl
      by_cases e : s0 = s
      · simp only [e, if_true, Option.some.injEq] at hl
        subst hl
        exact h s rec t0 n0 hr hi hn
      · simp only [e, if_false] at hl
        exact h s0 rec0 t0 n0 hl hi hn

theorem inv_run (c : Client) (ops : List Op) (h : Inv c) : Inv (run c ops).1 := by
  induction ops generalizing c with
  | nil => exact h
  | cons op ops ih =>
    simp only [run]
    exact ih _ (inv_step c op h)

/-- **for every history** of flows started, authorization / token / user-info responses delivered
    in any order and with any recombination of parameters: every ID token recorded under a state
    carries the nonce that was sent in the request of that state -/
theorem recorded_token_has_own_nonce (issuer cid : Str) (ops : List Op) :
    Inv (run { issuer := issuer, clientId := cid } ops).1 :=
  inv_run _ ops (by intro s rec t n hl; simp [lookup] at hl)

/-! ### several issuers -/

/-- a response delivered for an issuer this relying party has no client for is rejected -/
theorem deliver_unknown_issuer (h : Handler) (issuer : Str) (op : Op) (hn : ∀ x ∈ h, x.issuer ≠ issuer) :
    deliver h issuer op = (h, false) := by
  unfold deliver
  have : h.find? (fun x => decide (x.issuer = issuer)) = none := by
    rw [List.find?_eq_none]; intro x hx; simpa using hn x hx
  rw [this]

/-- delivering a response for issuer `J` leaves every other issuer's client — and so every session
    kept there — exactly as it was -/
theorem deliver_other_clients_untouched (h : Handler) (issuer : Str) (op : Op) (x : Client) (hx : x ∈ h)
    (hne : x.issuer ≠ issuer) : x ∈ (deliver h issuer op).1 := by
  unfold deliver
  split
  · exact hx
  · simp only
    exact List.mem_map.mpr ⟨x, hx, by simp [hne]⟩

/-- **mix-up**: an authorization response whose state was created for issuer `I`, delivered to the
    client for issuer `J` (which does not know that state), is rejected -/
theorem state_of_other_issuer_rejected (h : Handler) (J : Str) (cJ : Client) (r : AuthzResp) (s : Str)
    (hf : h.find? (·.issuer = J) = some cJ) (hs : r.state = some s) (hu : lookup cJ.db s = none) :
    (deliver h J (.authz r)).2 = false := by
  unfold deliver
  rw [hf]
  simp only
  rw [unknown_state_rejected cJ r s hs hu]

/-! ### non-vacuity: two pending flows, a genuine completion, and the recombinations -/

def c0 : Client := { issuer := [73], clientId := [99] }
def opsAB : List Op := [.begin [1] [11], .begin [2] [12]]

theorem worked :
    -- genuine: authz response then token response with the flow's own nonce
    (run c0 (opsAB ++ [.authz { state := some [1], code := some [7] }, .token [1] { accessToken := [8], idt := some { nonce := some [11], sub := [5] } },
                       .userinfo [1] [5]])).2 = [true, true, true, true, true] ∧
    -- ID token of flow 2 in the token response of flow 1
    (run c0 (opsAB ++ [.authz { state := some [1], code := some [7] }, .token [1] { accessToken := [8], idt := some { nonce := some [12], sub := [5] } }])).2
      = [true, true, true, false] ∧
    -- F-C09-a: a `sub` equal to the other flow's nonce re-binds the map, the other flow's nonce is still refused for flow 1
    (run c0 (opsAB ++ [.authz { state := some [1], code := some [7] }, .token [1] { accessToken := [8], idt := some { nonce := some [11], sub := [12] } },
                       .token [1] { accessToken := [9], idt := some { nonce := some [12], sub := [5] } }])).2 = [true, true, true, true, false] ∧
    -- unknown state, `iss` naming another issuer, user info about another subject
    (run c0 (opsAB ++ [.authz { state := some [3], code := some [7] }, .authz { state := some [1], code := some [7], issParam := some [74] }])).2
      = [true, true, false, false] := by
  decide +kernel

end Idpy.Props.C09
