/-
C15 — PKCE binds the code to the party that started the flow.
-/
import IdpyVerif.Model.Pkce
import IdpyVerif.Gen.Tables
namespace Idpy.Props.C15
open Idpy Idpy.Pkce

/-- if the authorization request carried a challenge, the token request passes PKCE only with a
    verifier that transforms, under the RECORDED method, to exactly that challenge -/
theorem verifier_required_and_bound (H : Method → Str → Str) (c : Str) (m : Method) (verifier : Option Str)
    (h : tokenParse H (some (c, m)) verifier = .pass) :
    ∃ v, verifier = some v ∧ transform H m v = some c := by
  unfold tokenParse at h
  cases verifier with
  | none => simp at h
  | some v =>
    refine ⟨v, rfl, ?_⟩
    simp only at h
    cases ht : transform H m v with
    | none => simp [ht] at h
    | some t =>
      simp only [ht] at h
      split at h
      · rename_i e; rw [e]
      · simp at h

/-- a missing or wrong verifier yields no tokens -/
theorem missing_or_wrong_verifier_refused (H : Method → Str → Str) (c : Str) (m : Method) :
    tokenParse H (some (c, m)) none = .error ∧
    ∀ v, transform H m v ≠ some c → tokenParse H (some (c, m)) (some v) ≠ .pass := by
  refine ⟨rfl, ?_⟩
  intro v hv hp
  obtain ⟨v', hv', ht⟩ := verifier_required_and_bound H c m (some v) hp
  simp at hv'; subst hv'; exact hv ht

/-- no downgrade: what is recorded at authorization time is the method the request named (or
    `plain` when it named none) and only if that method is configured -/
theorem recorded_method_is_requested (cfg : Cfg) (cl : Client) (c : Str) (method : Option Method) (stored : Option (Str × Method))
    (h : authzParse cfg cl (some c) method = .ok stored) :
    stored = some (c, method.getD "plain") ∧ (method.getD "plain") ∈ cfg.methods := by
  unfold authzParse at h
  simp only [Option.isNone_some, Bool.false_eq_true, and_false, if_false] at h
  split at h
  · rename_i hm
    simp only [AuthzRes.ok.injEq] at h
    exact ⟨h.symm, by simpa using hm⟩
  · simp at h

/-- essential PKCE: the full truth table of global flag × per-client override × challenge present -/
theorem essential_enforced (cfg : Cfg) (cl : Client) (method : Option Method)
    (hess : cl.essential.getD cfg.essential = true) :
    authzParse cfg cl none method = .error := by
  unfold authzParse
  simp [hess]

theorem unsupported_method_refused (cfg : Cfg) (cl : Client) (c : Str) (m : Method) (hm : m ∉ cfg.methods) :
    authzParse cfg cl (some c) (some m) = .error := by
  unfold authzParse
  simp [hm]

theorem override_table :
    ∀ g : Bool, ∀ o : Option Bool, (o.getD g = true) ↔ (o = some true ∨ (o = none ∧ g = true)) := by
  intro g o
  cases g <;> cases o <;> simp

/-- a challenge/verifier pair produced by the library's relying party is always accepted by the
    provider: for every ASCII verifier and every method both sides know and the provider has
    configured.  Needs only that both sides compute the same function (correspondence's job). -/
theorem rp_pair_accepted (H : Method → Str → Str) (cfg : Cfg) (cl : Client) (m : Method) (v : Str)
    (hm : m ∈ cfg.methods) (hne : m ≠ "plain") (hv : isAscii v = true) :
    ∃ stored, authzParse cfg cl (some (clientChallenge H m v)) (some m) = .ok stored ∧
      tokenParse H stored (some v) = .pass := by
  refine ⟨some (clientChallenge H m v, m), ?_, ?_⟩
  · unfold authzParse
    simp [hm]
  · simp [tokenParse, transform, hne, hv, clientChallenge]

/-! ### the method tables in the source today -/

/-- every transformation the relying party can choose is known to the provider -/
theorem client_methods_known_to_server : Gen.pkceClientMethods.all (Gen.pkceServerMethods.contains ·) = true := by
  decide

/-- the relying party never uses `plain` -/
theorem client_never_plain : Gen.pkceClientMethods.contains "plain" = false := by decide

theorem server_table : Gen.pkceServerMethods = ["plain", "S256", "S384", "S512"] := by decide

end Idpy.Props.C15
