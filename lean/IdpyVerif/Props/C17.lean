/-
C17 — cookies issued by the provider are tamper-evident and round-trip exactly.
Cryptography enters only through the hypotheses of `Sound` (what a correct base64 / AEAD /
Fernet implementation gives) and, for the unique-parse theorem, ciphertext integrity (`IntCtxt`).
-/
import IdpyVerif.Model.Cookie
import IdpyVerif.Model.ClientCookie
import IdpyVerif.Proofs.LV
import IdpyVerif.Proofs.Split
namespace Idpy.Props.C17
open Idpy Idpy.LV Idpy.Split Idpy.Cookie

/-- functional correctness of the primitives (no security assumption) -/
structure Sound (k : Crypto) : Prop where
  unb64_b64 : ∀ x, k.unb64 (k.b64 x) = some x
  b64_nobar : ∀ x, bar ∉ k.b64 x
  b64_last  : ∀ x c, (k.b64 x).getLast? = some c → isWs c = false
  aead      : ∀ iv m, k.aeadDec iv (k.aeadEnc iv m).1 (k.aeadEnc iv m).2 = some m
  fernet    : ∀ m, ∃ m', k.fernetDec (k.fernetEnc m) = some m' ∧ strip m' = strip m

/-- timestamps are rendered decimal integers -/
def TsOk (ts : Str) : Prop := ts ≠ [] ∧ ∀ c ∈ ts, isDig c = true

/-- value/type guard forced by `payload.split("::")` -/
def NoSep (v typ : Str) : Prop := Split.SepFree colon [v, typ]

theorem ts_nobar {ts : Str} (h : TsOk ts) : bar ∉ ts := by
  intro hb; have := h.2 _ hb; simp [isDig_eq, bar_eq] at this

theorem ts_last {ts : Str} (h : TsOk ts) : ∀ c, ts.getLast? = some c → isWs c = false := by
  intro c hc
  have hm : c ∈ ts := List.mem_of_getLast? hc
  exact dig_not_ws c (h.2 c hm)

theorem payload_split {v typ : Str} (h : NoSep v typ) : split2 colon (payloadOf v typ) = [v, typ] :=
  Split.split_join colon [v, typ] h

theorem unpack_congr {a b : Str} (h : strip a = strip b) : unpack a = unpack b := by
  unfold unpack; simp only [h]

/-- signed-only mode round trip; the payload must not contain `|` -/
theorem signed_roundtrip (k : Crypto) (hk : Sound k) (iv v typ ts : Str)
    (hne : ¬ (v.isEmpty ∧ typ.isEmpty)) (hs : NoSep v typ) (ht : TsOk ts)
    (hbar : bar ∉ payloadOf v typ) :
    parse k .signed (make k .signed iv v typ ts) = .content v typ ts := by
  unfold make parse
  rw [if_neg hne]
  simp only [signEnc]
  rw [split1_join1 bar _ (by simp) (by
    intro a ha; simp at ha
    rcases ha with rfl | rfl | rfl
    · exact ts_nobar ht
    · exact hbar
    · exact hk.b64_nobar _)]
  simp [verDec, hk.unb64_b64, payload_split hs]

/-- signed + encrypted mode round trip (no guard on `|`: the payload is length-framed) -/
theorem signed_enc_roundtrip (k : Crypto) (hk : Sound k) (iv v typ ts : Str)
    (hne : ¬ (v.isEmpty ∧ typ.isEmpty)) (hs : NoSep v typ) (ht : TsOk ts) :
    parse k .signedEnc (make k .signedEnc iv v typ ts) = .content v typ ts := by
  unfold make parse
  rw [if_neg hne]
  simp only [signEnc]
  rw [split1_join1 bar _ (by simp) (by
    intro a ha; simp at ha
    rcases ha with rfl | rfl | rfl | rfl
    · exact ts_nobar ht
    all_goals exact hk.b64_nobar _)]
  have hu := lv_pack_unpack [payloadOf v typ, ts, k.b64 (k.mac (macInput (payloadOf v typ) ts))]
    (by simpa [LastOk] using hk.b64_last _)
  simp [verDec, hk.unb64_b64, hk.aead, hu, payload_split hs]

/-- encrypted-only mode round trip -/
theorem enc_only_roundtrip (k : Crypto) (hk : Sound k) (iv v typ ts : Str)
    (hne : ¬ (v.isEmpty ∧ typ.isEmpty)) (hs : NoSep v typ) (ht : TsOk ts) :
    parse k .encOnly (make k .encOnly iv v typ ts) = .content v typ ts := by
  unfold make parse
  rw [if_neg hne]
  simp only [signEnc]
  rw [split1_join1 bar _ (by simp) (by
    intro a ha; simp at ha
    rcases ha with rfl | rfl | rfl | rfl
    · exact ts_nobar ht
    all_goals exact hk.b64_nobar _)]
  have hu := lv_pack_unpack [payloadOf v typ, ts] (by simpa [LastOk] using ts_last ht)
  simp [verDec, hk.unb64_b64, hk.aead, hu, payload_split hs]

/-- encrypter (Fernet) mode round trip; the payload must not end in whitespace
    (`lv_unpack` strips, and so does the Fernet wrapper) -/
theorem crypt_roundtrip (k : Crypto) (hk : Sound k) (iv v typ ts : Str)
    (hne : ¬ (v.isEmpty ∧ typ.isEmpty)) (hs : NoSep v typ) (ht : TsOk ts)
    (hl : ∀ c, (payloadOf v typ).getLast? = some c → isWs c = false) :
    parse k .crypt (make k .crypt iv v typ ts) = .content v typ ts := by
  unfold make parse
  rw [if_neg hne]
  simp only [signEnc]
  rw [split1_join1 bar _ (by simp) (by
    intro a ha; simp at ha
    rcases ha with rfl | rfl
    · exact ts_nobar ht
    · exact hk.b64_nobar _)]
  obtain ⟨m', hm', hst⟩ := hk.fernet (pack [ts, payloadOf v typ])
  have hu := lv_pack_unpack [ts, payloadOf v typ] (by simpa [LastOk] using hl)
  rw [← unpack_congr hst] at hu
  simp [verDec, hk.unb64_b64, hm', hu, payload_split hs]

/-- what the provider ever encrypted in signed+encrypted mode -/
def GenuinePlain (k : Crypto) (G : Str → Str → Str → Prop) (m : Str) : Prop :=
  ∃ v typ ts, G v typ ts ∧ NoSep v typ ∧ TsOk ts ∧
    m = pack [payloadOf v typ, ts, k.b64 (k.mac (macInput (payloadOf v typ) ts))]

/-- ciphertext integrity (INT-CTXT, the security assumption on AES-GCM): whatever decrypts
    under the provider's key was encrypted by the provider -/
def IntCtxt (k : Crypto) (G : Str → Str → Str → Prop) : Prop :=
  ∀ iv ct tag m, k.aeadDec iv ct tag = some m → GenuinePlain k G m

/-- unique parse in signed+encrypted mode: any four-part cookie string that is accepted parses
    to exactly the content of some genuine cookie — whatever was done to its parts -/
theorem signed_enc_unique_parse (k : Crypto) (hk : Sound k) (G : Str → Str → Str → Prop)
    (hint : IntCtxt k G) (t iv ct tag : Str) (v' typ' ts' : Str)
    (h : parse k .signedEnc (join1 bar [t, iv, ct, tag]) = .content v' typ' ts')
    (hsplit : split1 bar (join1 bar [t, iv, ct, tag]) = [t, iv, ct, tag]) :
    G v' typ' ts' := by
  unfold parse at h
  rw [hsplit] at h
  simp only [verDec] at h
  cases h1 : k.unb64 iv with
  | none => simp [h1] at h
  | some iv' =>
  cases h2 : k.unb64 ct with
  | none => simp [h1, h2] at h
  | some ct' =>
  cases h3 : k.unb64 tag with
  | none => simp [h1, h2, h3] at h
  | some tag' =>
  cases h4 : k.aeadDec iv' ct' tag' with
  | none => simp [h1, h2, h3, h4] at h
  | some m =>
    obtain ⟨v, typ, ts, hG, hs, ht, hm⟩ := hint _ _ _ _ h4
    have hu := lv_pack_unpack [payloadOf v typ, ts, k.b64 (k.mac (macInput (payloadOf v typ) ts))]
      (by simpa [LastOk] using hk.b64_last _)
    simp [h1, h2, h3, h4, hm, hu, hk.unb64_b64, payload_split hs] at h
    obtain ⟨rfl, rfl, rfl⟩ := h
    exact hG

/-- unique parse in signed-only mode (after the fix for F-C17-a): if the tag the adversary
    presents is one the provider produced for some genuine cookie (unforgeability) and HMAC is
    collision free on the messages involved (`Function.Injective k.mac`, the idealisation), then any
    three-part cookie that is accepted parses to exactly the content of that genuine cookie —
    whatever was done to timestamp and payload.  The step that needs the fix is `pack_injective`:
    the MAC input frames payload and timestamp -/
theorem signed_unique_parse (k : Crypto) (G : Str → Str → Str → Prop)
    (hinj : Function.Injective k.mac) (t payload b64mac : Str) (v' typ' ts' : Str)
    (hknown : ∀ macv, k.unb64 b64mac = some macv →
      ∃ v typ ts, G v typ ts ∧ NoSep v typ ∧ macv = k.mac (macInput (payloadOf v typ) ts))
    (h : parse k .signed (join1 bar [t, payload, b64mac]) = .content v' typ' ts')
    (hsplit : split1 bar (join1 bar [t, payload, b64mac]) = [t, payload, b64mac]) :
    G v' typ' ts' := by
  unfold parse at h
  rw [hsplit] at h
  simp only [verDec] at h
  cases h1 : k.unb64 b64mac with
  | none => simp [h1] at h
  | some macv =>
    obtain ⟨v, typ, ts, hG, hs, hm⟩ := hknown macv h1
    simp only [h1] at h
    by_cases hv : macv = k.mac (macInput payload t)
    · have hin : macInput (payloadOf v typ) ts = macInput payload t := hinj (hm.symm.trans hv)
      have hl : [payloadOf v typ, ts] = [payload, t] := pack_injective _ _ hin
      simp only [List.cons.injEq, and_true] at hl
      obtain ⟨hp, ht⟩ := hl
      subst hp ht
      simp [hv, payload_split hs] at h
      obtain ⟨rfl, rfl, rfl⟩ := h
      exact hG
    · simp [hv] at h

/-- why the framing matters: the bare concatenation used before the fix is not injective — the first
    digit of the timestamp can move to the end of the payload (F-C17-a, fixed) -/
theorem concatenation_is_not_injective :
    ([104, 105, 58, 58, 115] : Str) ++ [49, 55, 48] = [104, 105, 58, 58, 115, 49] ++ [55, 48] ∧
    macInput [104, 105, 58, 58, 115] [49, 55, 48] ≠ macInput [104, 105, 58, 58, 115, 49] [55, 48] := by
  refine ⟨rfl, ?_⟩
  intro h
  have := pack_injective _ _ h
  simp at this

/-- the `::` guard is forced: a value containing `::` does not parse back (F-C17-b) -/
theorem separator_counterexample (k : Crypto) (hk : Sound k) :
    parse k .signed (make k .signed [] [97, 58, 58, 98] [115] [49]) = .rejected := by
  have hb := hk.b64_nobar (k.mac (macInput (payloadOf [97, 58, 58, 98] [115]) [49]))
  unfold make parse
  simp only [signEnc]
  rw [if_neg (by simp), split1_join1 bar _ (by simp) (by
      intro a ha; simp at ha
      rcases ha with rfl | rfl | rfl
      · simp [bar_eq]
      · simp [payloadOf, join2, colon_eq, bar_eq]
      · exact hb)]
  simp [verDec, hk.unb64_b64, payloadOf, join2, split2, split2Aux, colon_eq]

end Idpy.Props.C17

namespace Idpy.Props.C17
open Idpy Idpy.LV Idpy.Cookie
/-! ### `idpyoidc.client.cookie` (make_cookie / parse_cookie / cookie_signature): the relying-party side cookie module the
    property's anchors name.  Same shape of statements; the signed-only format authenticates the BARE concatenation of
    load and timestamp, so unique parse holds only between cookies whose timestamps have the same length
    (`client_signed_unique_parse_partial`) and fails in general (`client_signed_boundary_shift`, finding F-C17-d). -/
section ClientCookie
open Idpy.Split

structure CSound (k : ClientCookie.Crypto) : Prop where
  unb64_b64 : ∀ x, k.unb64 (k.b64 x) = some x
  b64_nobar : ∀ x, bar ∉ k.b64 x
  mac_nobar : ∀ x, bar ∉ k.mac x                      -- a hex digest
  aead      : ∀ iv m a, k.aeadDec iv (k.aeadEnc iv m a).1 (k.aeadEnc iv m a).2 a = some m

/-- signed-only round trip; the load must not contain `|` -/
theorem client_signed_roundtrip (k : ClientCookie.Crypto) (hk : CSound k) (iv load ts : Str) (ht : TsOk ts) (hbar : bar ∉ load) :
    ClientCookie.parse k (ClientCookie.make k false iv load ts) = some (load, ts) := by
  unfold ClientCookie.make ClientCookie.parse
  simp only [Bool.false_eq_true, ↓reduceIte]
  rw [split1_join1 bar _ (by simp) (by
    intro a ha; simp at ha
    rcases ha with rfl | rfl | rfl
    · exact hbar
    · exact ts_nobar ht
    · exact hk.mac_nobar _)]
  simp

/-- encrypted round trip: any load (the load is inside the ciphertext) -/
theorem client_enc_roundtrip (k : ClientCookie.Crypto) (hk : CSound k) (iv load ts : Str) (ht : TsOk ts) :
    ClientCookie.parse k (ClientCookie.make k true iv load ts) = some (load, ts) := by
  unfold ClientCookie.make ClientCookie.parse
  simp only [↓reduceIte]
  rw [split1_join1 bar _ (by simp) (by
    intro a ha; simp at ha
    rcases ha with rfl | rfl | rfl | rfl
    · exact ts_nobar ht
    · exact hk.b64_nobar _
    · exact hk.b64_nobar _
    · exact hk.b64_nobar _)]
  simp [hk.unb64_b64, hk.aead]

/-- ciphertext integrity with associated data: what decrypts was encrypted by this party, with that very timestamp -/
def CIntCtxt (k : ClientCookie.Crypto) (G : Str → Str → Prop) : Prop :=
  ∀ iv ct tag aad m, k.aeadDec iv ct tag aad = some m → G m aad

/-- encrypted mode, unique parse: every four-part string that is accepted parses to genuine content — the clear-text
    timestamp included (it is the associated data) -/
theorem client_enc_unique_parse (k : ClientCookie.Crypto) (G : Str → Str → Prop) (hint : CIntCtxt k G)
    (ts iv ct tag load' ts' : Str)
    (hsplit : split1 bar (join1 bar [ts, iv, ct, tag]) = [ts, iv, ct, tag])
    (h : ClientCookie.parse k (join1 bar [ts, iv, ct, tag]) = some (load', ts')) : G load' ts' := by
  unfold ClientCookie.parse at h
  rw [hsplit] at h
  simp only at h
  cases h1 : k.unb64 iv <;> cases h2 : k.unb64 ct <;> cases h3 : k.unb64 tag <;> simp [h1, h2, h3] at h
  rename_i iv' ct' tag'
  cases h4 : k.aeadDec iv' ct' tag' ts with
  | none => simp [h4] at h
  | some m =>
    simp [h4] at h
    obtain ⟨rfl, rfl⟩ := h
    exact hint _ _ _ _ _ h4

/-- signed-only mode, the part that holds: among cookies whose timestamps all have ONE length (ten digits until the
    year 2286), an accepted three-part string whose tag the party produced parses to exactly that genuine content -/
theorem client_signed_unique_parse_partial (k : ClientCookie.Crypto) (G : Str → Str → Prop)
    (hinj : Function.Injective k.mac) (n : Nat) (clear ts sig : Str)
    (hknown : ∃ load t, G load t ∧ t.length = n ∧ sig = k.mac (ClientCookie.macInput load t))
    (hlen : ts.length = n)
    (hsplit : split1 bar (join1 bar [clear, ts, sig]) = [clear, ts, sig])
    (load' ts' : Str) (h : ClientCookie.parse k (join1 bar [clear, ts, sig]) = some (load', ts')) : G load' ts' := by
  unfold ClientCookie.parse at h
  rw [hsplit] at h
  simp only at h
  obtain ⟨load, t, hG, htl, hs⟩ := hknown
  by_cases hv : sig = k.mac (ClientCookie.macInput clear ts)
  · have hin : ClientCookie.macInput load t = ClientCookie.macInput clear ts := hinj (hs.symm.trans hv)
    unfold ClientCookie.macInput at hin
    obtain ⟨h1, h2⟩ := List.append_inj' hin (by rw [htl, hlen])
    simp [hv] at h
    obtain ⟨hl, ht⟩ := h
    rw [← hl, ← ht, ← h1, ← h2]; exact hG
  · simp [hv] at h

/-- **F-C17-d** — and in general it fails: the last character of the load can be moved to the front of the timestamp.
    For EVERY crypto instance the tag of (`hello1`, `700`) is accepted for (`hello`, `1700`): different content, no key needed -/
theorem client_signed_boundary_shift (k : ClientCookie.Crypto) (hk : CSound k) :
    ClientCookie.parse k (join1 bar [[104, 101, 108, 108, 111], [49, 55, 48, 48], k.mac (ClientCookie.macInput [104, 101, 108, 108, 111, 49] [55, 48, 48])])
      = some ([104, 101, 108, 108, 111], [49, 55, 48, 48]) := by
  unfold ClientCookie.parse
  rw [split1_join1 bar _ (by simp) (by
    intro a ha; simp at ha
    rcases ha with rfl | rfl | rfl
    · simp [bar_eq]
    · simp [bar_eq]
    · exact hk.mac_nobar _)]
  simp [ClientCookie.macInput]

end ClientCookie

theorem toy_unshift (x : List Nat) : List.map (fun c => c - 20000) (List.map (fun c => c + 20000) x) = x := by
  induction x with
  | nil => rfl
  | cons a as ih => rw [List.map_cons, List.map_cons, ih, Nat.add_sub_cancel]

/-- non-vacuity: `Sound` is satisfiable (a toy instance: shifting code points as "base64",
    identity "encryption") -/
example : ∃ k : Crypto, Sound k := by
  refine ⟨{ mac := id, b64 := fun x => x.map (fun c => c + 20000),
            unb64 := fun y => some (y.map (fun c => c - 20000)),
            aeadEnc := fun _ m => (m, []), aeadDec := fun _ ct _ => some ct,
            fernetEnc := id, fernetDec := fun m => some m }, ?_⟩
  constructor
  · intro x; show some _ = some x; rw [toy_unshift]
  · intro x hx; simp only [List.mem_map] at hx; obtain ⟨a, _, ha⟩ := hx; rw [bar_eq] at ha; omega
  · intro x c hc
    have := List.mem_of_getLast? hc
    simp only [List.mem_map] at this; obtain ⟨a, _, rfl⟩ := this
    rw [isWs_eq, decide_eq_false_iff_not]; omega
  · intro iv m; rfl
  · intro m; exact ⟨m, rfl, rfl⟩
end Idpy.Props.C17
