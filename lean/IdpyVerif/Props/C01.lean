/-
C01 — client authentication is sound at every protected endpoint.
-/
import IdpyVerif.Model.ClientAuthn
namespace Idpy.Props.C01
open Idpy Idpy.ClientAuthn

/-- the credential a request must carry to be accepted as client `X` with method `m` -/
def CredentialOf (cfg : Cfg) (st : St) (c : Cred) (X : Str) : Method → Prop
  | .basic => ∃ r, findClient cfg X = some r ∧ ∃ s, r.secret = some s ∧ (∃ id sec, c.basic = .pair id sec ∧ id = X ∧ sec = s)
  | .post => ∃ r, findClient cfg X = some r ∧ ∃ s, r.secret = some s ∧ c.postId = some X ∧ c.postSecret = some s
  | .secretJwt => ∃ j, c.assertion = some j ∧ j.unpack = .ok ∧ j.hs = true ∧ j.iss = X ∧ j.audOk = true ∧
      (((findClient cfg X).bind (·.secret)).isSome → j.octIsSecret = true) ∧ (∀ t, j.jti = some t → (X, t) ∉ st.jtiSeen)
  | .privateKeyJwt => ∃ j, c.assertion = some j ∧ j.unpack = .ok ∧ j.hs = false ∧ j.iss = X ∧ j.audOk = true ∧
      (∀ t, j.jti = some t → (X, t) ∉ st.jtiSeen)
  | .bearerHeader => c.bearer = some (some X) ∨ (c.bearer = some none ∧ X = [])
  | .publicM => c.postId = some X
  | _ => False

theorem tryJwt_ok {cfg : Cfg} {st : St} {j : Jwt} {sm : Bool} {X : Str} {rec : Option (Str × Str)}
    (h : tryJwt cfg st j sm = (.ok X, rec)) :
    j.unpack = .ok ∧ j.hs = sm ∧ j.iss = X ∧ j.audOk = true ∧
    ((j.hs = true ∧ ((findClient cfg j.iss).bind (·.secret)).isSome) → j.octIsSecret = true) ∧
    (∀ t, j.jti = some t → (X, t) ∉ st.jtiSeen) ∧ (rec = j.jti.map (fun t => (j.iss, t))) := by
  unfold tryJwt at h
  split at h; · simp at h
  split at h; · simp at h
  split at h; · simp at h
  split at h; · simp at h
  split at h; · simp at h
  split at h; · simp at h
  split at h; · simp at h
  rename_i h1 h2 h3 h4 h5 h6 h7
  have hu : j.unpack = .ok := by
    cases hj : j.unpack <;> simp_all
  have hhs : j.hs = sm := by
    cases hh : j.hs <;> cases sm <;> simp_all
  split at h
  · rename_i t ht
    split at h
    · simp at h
    · rename_i hseen
      simp only [Prod.mk.injEq, Try.ok.injEq] at h
      obtain ⟨rfl, rfl⟩ := h
      refine ⟨hu, hhs, rfl, by simpa using h7, ?_, ?_, by simp [ht]⟩
      · intro ⟨a, b⟩; simp_all
      · intro t' ht'; rw [ht] at ht'; simp at ht'; subst ht'; simpa using hseen
  · rename_i hj
    simp only [Prod.mk.injEq, Try.ok.injEq] at h
    obtain ⟨rfl, rfl⟩ := h
    refine ⟨hu, hhs, rfl, by simpa using h7, ?_, ?_, by simp [hj]⟩
    · intro ⟨a, b⟩; simp_all
    · intro t' ht'; rw [hj] at ht'; simp at ht'

/-- one method's verdict `ok X` carries X's credential for that method -/
theorem tryMethod_ok (cfg : Cfg) (st : St) (c : Cred) (m : Method) (X : Str) (rec : Option (Str × Str))
    (h : tryMethod cfg st c m = (.ok X, rec)) : CredentialOf cfg st c X m := by
  unfold tryMethod at h
  split at h; · simp at h
  cases m <;> simp only at h
  · -- basic
    split at h
    · rename_i id sec hb
      split at h
      · simp at h
      · rename_i r hr
        split at h
        · simp at h
        · rename_i s hs
          split at h
          · rename_i he
            simp only [Prod.mk.injEq, Try.ok.injEq] at h
            obtain ⟨rfl, _⟩ := h
            exact ⟨r, hr, s, hs, id, sec, hb, rfl, he.symm⟩
          · simp at h
    · simp at h
  · -- post
    split at h
    · rename_i id sec hi hs'
      split at h
      · simp at h
      · rename_i r hr
        split at h
        · simp at h
        · rename_i s hs
          split at h
          · rename_i he
            simp only [Prod.mk.injEq, Try.ok.injEq] at h
            obtain ⟨rfl, _⟩ := h
            exact ⟨r, hr, s, hs, hi, by rw [hs', he]⟩
          · simp at h
    · simp at h
  · -- bearer header
    split at h
    · rename_i id hb
      simp only [Prod.mk.injEq, Try.ok.injEq] at h
      obtain ⟨rfl, _⟩ := h
      exact Or.inl hb
    · rename_i hb
      simp only [Prod.mk.injEq, Try.ok.injEq] at h
      obtain ⟨rfl, _⟩ := h
      exact Or.inr ⟨hb, rfl⟩
    · simp at h
  · simp at h
  · -- client_secret_jwt
    split at h
    · rename_i j hj
      obtain ⟨h1, h2, h3, h4, h5, h6, _⟩ := tryJwt_ok h
      refine ⟨j, hj, h1, h2, h3, h4, ?_, h6⟩
      intro hsome; exact h5 ⟨h2, by rw [h3]; exact hsome⟩
    · simp at h
  · -- private_key_jwt
    split at h
    · rename_i j hj
      obtain ⟨h1, h2, h3, h4, _, h6, _⟩ := tryJwt_ok h
      exact ⟨j, hj, h1, h2, h3, h4, h6⟩
    · simp at h
  · simp at h
  · -- public
    split at h
    · rename_i id hi
      simp only [Prod.mk.injEq, Try.ok.injEq] at h
      obtain ⟨rfl, _⟩ := h
      exact hi
    · simp at h
  · simp at h

/-- the replay cache only grows along the loop -/
theorem loop_jti_mono (cfg : Cfg) (c : Cred) (ms : List Method) (st : St) :
    ∀ k ∈ st.jtiSeen, k ∈ (loop cfg c ms st).1.jtiSeen := by
  induction ms generalizing st with
  | nil => intro k hk; simpa [loop] using hk
  | cons m rest ih =>
    intro k hk
    unfold loop
    split
    · exact ih st k hk
    · exact hk
    · rename_i id rec _
      have hk' : k ∈ (record st rec).jtiSeen := by
        cases rec <;> simp [record, hk]
      simp only
      split
      · exact hk'
      · split
        · exact hk'
        · split
          · split
            · exact hk'
            · exact ih _ k hk'
          · exact hk'

/-- **soundness of acceptance**: a request is treated as coming from client X by method m only
    if m is one of the endpoint's methods, allowed by X's registration, X's secret has not
    expired, and the request carries X's credential for m — evaluated against a replay cache at
    least as large as the one the request met. -/
theorem accept_sound_loop (cfg : Cfg) (c : Cred) (ms : List Method) (st st' : St) (X : Str) (m : Method)
    (h : loop cfg c ms st = (st', .accepted X m)) :
    m ∈ ms ∧ ∃ r, findClient cfg X = some r ∧ secretValid r st.now = true ∧
      (∀ al, r.allowed = some al → m ∈ al) ∧
      ∃ st0 : St, (∀ k ∈ st.jtiSeen, k ∈ st0.jtiSeen) ∧ st0.now = st.now ∧ CredentialOf cfg st0 c X m := by
  induction ms generalizing st with
  | nil => simp [loop] at h
  | cons m0 rest ih =>
    unfold loop at h
    split at h
    · obtain ⟨h1, r, h2, h3, h4, st0, h5, h6, h7⟩ := ih st h
      exact ⟨List.mem_cons_of_mem _ h1, r, h2, h3, h4, st0, h5, h6, h7⟩
    · simp at h
    · rename_i id rec htry
      simp only at h
      split at h
      · simp at h
      · rename_i r hr
        split at h
        · simp at h
        · rename_i hsv
          split at h
          · rename_i al hal
            split at h
            · rename_i hmem
              simp only [Prod.mk.injEq, Outcome.accepted.injEq] at h
              obtain ⟨_, rfl, rfl⟩ := h
              exact ⟨by simp, r, hr, by simpa using hsv, fun al' h' => by rw [hal] at h'; simp at h'; subst h'; simpa using hmem,
                st, fun k hk => hk, rfl, tryMethod_ok cfg st c _ _ rec htry⟩
            · -- per-client filter rejected this method: the loop goes on with the (possibly grown) cache
              have := ih _ h
              obtain ⟨h1, r', h2, h3, h4, st0, h5, h6, h7⟩ := this
              refine ⟨List.mem_cons_of_mem _ h1, r', h2, ?_, h4, st0, ?_, ?_, h7⟩
              · cases rec <;> simpa [record] using h3
              · intro k hk; apply h5; cases rec <;> simp [record, hk]
              · rw [h6]; cases rec <;> rfl
          · rename_i hal
            simp only [Prod.mk.injEq, Outcome.accepted.injEq] at h
            obtain ⟨_, rfl, rfl⟩ := h
            exact ⟨by simp, r, hr, by simpa using hsv, fun al' h' => by rw [hal] at h'; simp at h',
              st, fun k hk => hk, rfl, tryMethod_ok cfg st c _ _ rec htry⟩

theorem accept_sound (cfg : Cfg) (st st' : St) (c : Cred) (X : Str) (m : Method)
    (h : verifyClient cfg st c = (st', .accepted X m)) :
    m ∈ cfg.methods ∧ ∃ r, findClient cfg X = some r ∧ secretValid r st.now = true ∧
      (∀ al, r.allowed = some al → m ∈ al) ∧
      ∃ st0 : St, (∀ k ∈ st.jtiSeen, k ∈ st0.jtiSeen) ∧ st0.now = st.now ∧ CredentialOf cfg st0 c X m :=
  accept_sound_loop cfg c cfg.methods st st' X m h

/-- **whoever the endpoint acts for presented that client's credential.** What the endpoint-specific
    code is handed by `parse_request` as an authenticated request of client X — whatever `client_id`
    the body claims — is a request that carried a credential of X, by a method the endpoint and X's
    registration allow -/
theorem acted_for_means_credential (cfg : Cfg) (st : St) (c : Cred) (X : Str) (body : Option Str)
    (h : treatedAs cfg (verifyClient cfg st c).2 body = some (some X, true)) :
    ∃ m, m ∈ cfg.methods ∧ ∃ r, findClient cfg X = some r ∧ secretValid r st.now = true ∧
      (∀ al, r.allowed = some al → m ∈ al) ∧
      ∃ st0 : St, (∀ k ∈ st.jtiSeen, k ∈ st0.jtiSeen) ∧ st0.now = st.now ∧ CredentialOf cfg st0 c X m := by
  cases ho : (verifyClient cfg st c).2 with
  | accepted id m =>
    rw [ho] at h
    simp only [treatedAs, Option.some.injEq, Prod.mk.injEq] at h
    obtain ⟨hid, _⟩ := h
    cases hid
    exact ⟨m, accept_sound cfg st (verifyClient cfg st c).1 c X m (by rw [← ho])⟩
  | nothing =>
    rw [ho] at h
    simp only [treatedAs] at h
    split at h <;> simp at h
  | authnError => rw [ho] at h; simp [treatedAs] at h
  | unknownClient => rw [ho] at h; simp [treatedAs] at h
  | invalidClient => rw [ho] at h; simp [treatedAs] at h

/-- a request accepted through the `public` (or `none`) method is never marked authenticated, whatever
    it says about itself (F-C01-b) -/
theorem public_is_not_authenticated (cfg : Cfg) (X : Str) (body : Option Str) :
    treatedAs cfg (.accepted X .publicM) body = some (some X, false) ∧
    treatedAs cfg (.accepted X .noneM) body = some (some X, false) := by
  constructor <;> simp [treatedAs]

/-- the body's `client_id` never decides who an authenticated request belongs to -/
theorem body_claim_is_ignored (cfg : Cfg) (o : Outcome) (b1 b2 : Option Str) (X : Option Str)
    (h : treatedAs cfg o b1 = some (X, true)) : treatedAs cfg o b2 = some (X, true) := by
  cases o <;> simp_all [treatedAs]

/-- an accepted JWT assertion with a jti leaves that (iss, jti) in the replay cache -/
theorem accepted_jti_recorded (cfg : Cfg) (c : Cred) (ms : List Method) (st st' : St) (X : Str) (m : Method)
    (j : Jwt) (t : Str) (hj : c.assertion = some j) (ht : j.jti = some t)
    (hm : m = .secretJwt ∨ m = .privateKeyJwt)
    (h : loop cfg c ms st = (st', .accepted X m)) : (j.iss, t) ∈ st'.jtiSeen := by
  induction ms generalizing st with
  | nil => simp [loop] at h
  | cons m0 rest ih =>
    unfold loop at h
    split at h
    · exact ih st h
    · simp at h
    · rename_i id rec htry
      simp only at h
      split at h
      · simp at h
      · split at h
        · simp at h
        · -- either accepted here (then the record was just made) or the loop continues
          have key : (m0 = .secretJwt ∨ m0 = .privateKeyJwt) → (j.iss, t) ∈ (record st rec).jtiSeen := by
            intro hm0
            have hrec : rec = some (j.iss, t) := by
              unfold tryMethod at htry
              split at htry; · simp at htry
              rcases hm0 with rfl | rfl <;> simp only [hj] at htry
              · have := (tryJwt_ok htry).2.2.2.2.2.2; rw [this, ht]; rfl
              · have := (tryJwt_ok htry).2.2.2.2.2.2; rw [this, ht]; rfl
            rw [hrec]; simp [record]
          split at h
          · split at h
            · simp only [Prod.mk.injEq, Outcome.accepted.injEq] at h
              obtain ⟨hst, _, rfl⟩ := h
              rw [← hst]; exact key hm
            · exact ih _ h
          · simp only [Prod.mk.injEq, Outcome.accepted.injEq] at h
            obtain ⟨hst, _, rfl⟩ := h
            rw [← hst]; exact key hm

/-- **replay**: once (iss, jti) is in the cache, no JWT method accepts that assertion again —
    after any number of intervening requests, because the cache only grows -/
theorem replayed_assertion_not_accepted (cfg : Cfg) (st st' : St) (c : Cred) (X : Str) (m : Method)
    (j : Jwt) (t : Str) (hj : c.assertion = some j) (ht : j.jti = some t) (hseen : (j.iss, t) ∈ st.jtiSeen)
    (hm : m = .secretJwt ∨ m = .privateKeyJwt) : verifyClient cfg st c ≠ (st', .accepted X m) := by
  intro h
  obtain ⟨_, r, _, _, _, st0, hsub, _, hcred⟩ := accept_sound cfg st st' c X m h
  rcases hm with rfl | rfl
  · obtain ⟨j', hj', _, _, hiss, _, _, hfresh⟩ := hcred
    rw [hj] at hj'; simp at hj'; subst hj'
    exact hfresh t ht (by rw [← hiss]; exact hsub _ hseen)
  · obtain ⟨j', hj', _, _, hiss, _, hfresh⟩ := hcred
    rw [hj] at hj'; simp at hj'; subst hj'
    exact hfresh t ht (by rw [← hiss]; exact hsub _ hseen)

/-- the cache is monotone over whole requests -/
theorem jti_monotone (cfg : Cfg) (st : St) (c : Cred) : ∀ k ∈ st.jtiSeen, k ∈ (verifyClient cfg st c).1.jtiSeen :=
  loop_jti_mono cfg c cfg.methods st

/-- the full statement of the property additionally demands that an assertion HAS an expiry and
    a jti; the code accepts assertions without either, and such an assertion is accepted again
    on replay (F-C01-a) -/
theorem no_jti_is_replayable :
    ∃ (cfg : Cfg) (c : Cred) (st : St), (verifyClient cfg st c).2 = .accepted [88] .privateKeyJwt ∧
      (verifyClient cfg (verifyClient cfg st c).1 c).2 = .accepted [88] .privateKeyJwt :=
  ⟨{ methods := [.privateKeyJwt], clients := [{ id := [88], secret := none, secretExpiresAt := 0, allowed := none }] },
   { basic := .absent, postId := none, postSecret := none, bearer := none,
     assertion := some { unpack := .ok, hs := false, iss := [88], octIsSecret := false, audOk := true, jti := none } },
   { now := 0, jtiSeen := [] }, by decide, by decide⟩

end Idpy.Props.C01
