/-
C19 — dynamic registration admits only well-formed clients and isolates them.
-/
import IdpyVerif.Model.Registration
import IdpyVerif.Gen.Reg
namespace Idpy.Props.C19
open Idpy Idpy.Registration

/-- the rule as the property states it -/
def Rule (native codeOnly : Bool) (u : UriShape) : Prop :=
  u.hasFragment = false ∧
  (native = true → (u.scheme = .custom ∨ (u.scheme = .http ∧ u.loopbackName = true))) ∧
  (native = false → u.scheme ≠ .custom ∧ (codeOnly = false → u.scheme = .https))

instance (n c : Bool) (u : UriShape) : Decidable (Rule n c u) := by unfold Rule; infer_instance

/-- admission table: over the whole (finite) space application type × response-type class ×
    scheme class × loopback × fragment the code admits exactly what the rule allows -/
theorem admission_table : ∀ (native codeOnly : Bool) (sch : Scheme) (lb fr : Bool),
    admits native codeOnly ⟨sch, lb, fr⟩ = true ↔ Rule native codeOnly ⟨sch, lb, fr⟩ := by
  intro native codeOnly sch lb fr
  cases native <;> cases codeOnly <;> cases sch <;> cases lb <;> cases fr <;> decide

/-- a stored client has only admissible redirect URIs -/
theorem stored_uris_admissible (s : St) (r : Req) (id sec tok : Nat)
    (h : (step s (.register r)).2 = .registered id sec tok) :
    r.otherOk = true ∧ ∀ u ∈ r.uris, Rule r.native r.codeOnly u := by
  simp only [step] at h
  split at h
  · rename_i hc
    refine ⟨hc.1, ?_⟩
    intro u hu
    have := List.all_eq_true.mp hc.2 u hu
    obtain ⟨sch, lb, fr⟩ := u
    exact (admission_table _ _ sch lb fr).mp this
  · simp at h

/-- a rejected request leaves no trace -/
theorem reject_stores_nothing (s : St) (r : Req) (h : (step s (.register r)).2 = .error) :
    (step s (.register r)).1 = s := by
  simp only [step] at h ⊢
  split
  · rename_i hc; simp [hc] at h
  · rfl

/-- identifiers, secrets and tokens handed out so far are below the counter and pairwise distinct -/
def Inv (s : St) : Prop :=
  (∀ c ∈ s.cdb, c.id < s.next ∧ c.secret < s.next ∧ c.token < s.next) ∧
  s.cdb.Pairwise (fun a b => a.id ≠ b.id ∧ a.token ≠ b.token ∧ a.secret ≠ b.secret)

theorem inv_step (s : St) (op : Op) (h : Inv s) : Inv (step s op).1 := by
  cases op with
  | read t c =>
    simp only [step]
    split
    · split <;> exact h
    · exact h
  | register r =>
    simp only [step]
    split
    · constructor
      · intro c hc
        simp only [List.mem_append, List.mem_singleton] at hc
        rcases hc with hc | rfl
        · have := h.1 c hc; simp only; omega
        · simp only; omega
      · rw [List.pairwise_append]
        refine ⟨h.2, by simp, ?_⟩
        intro a ha b hb
        simp at hb; subst hb
        have := h.1 a ha; simp only; omega
    · exact h

theorem inv_run (ops : List Op) (s : St) (h : Inv s) : Inv (run s ops).1 := by
  induction ops generalizing s with
  | nil => exact h
  | cons op ops ih => simp only [run]; exact ih _ (inv_step s op h)

/-- a new registration gets an id, secret and token that no earlier client has -/
theorem registration_is_fresh (s : St) (r : Req) (id sec tok : Nat) (hi : Inv s)
    (h : (step s (.register r)).2 = .registered id sec tok) :
    ∀ c ∈ s.cdb, c.id ≠ id ∧ c.secret ≠ sec ∧ c.token ≠ tok := by
  simp only [step] at h
  split at h
  · simp only [Out.registered.injEq] at h
    obtain ⟨rfl, rfl, rfl⟩ := h
    intro c hc
    have := hi.1 c hc; omega
  · simp at h

theorem find_token_unique {l : List ClientRec} (hp : l.Pairwise (fun a b => a.id ≠ b.id ∧ a.token ≠ b.token ∧ a.secret ≠ b.secret))
    {c : ClientRec} (hc : c ∈ l) : l.find? (fun x => x.token = c.token) = some c := by
  induction l with
  | nil => simp at hc
  | cons x xs ih =>
    rw [List.pairwise_cons] at hp
    rcases List.mem_cons.mp hc with rfl | hc'
    · simp
    · have hne : x.token ≠ c.token := (hp.1 c hc').2.1
      simp [List.find?_cons, hne, ih hp.2 hc']

/-- **read isolation**: in every reachable state the registration access token issued to client X
    reads X's registration and no other client's -/
theorem read_isolated (s : St) (hi : Inv s) (x : ClientRec) (hx : x ∈ s.cdb) (client : Nat) :
    (step s (.read x.token client)).2 = (if client = x.id then .read client else .refused) := by
  simp only [step, find_token_unique hi.2 hx]
  by_cases h : x.id = client
  · simp [h]
  · have : ¬ client = x.id := fun e => h e.symm
    simp [h, this]

theorem unknown_token_refused (s : St) (token client : Nat) (h : ∀ c ∈ s.cdb, c.token ≠ token) :
    (step s (.read token client)).2 = .refused := by
  simp only [step]
  split
  · rename_i c hf
    exact absurd (by simpa using List.find?_some hf) (h c (List.mem_of_find?_eq_some hf))
  · rfl

/-- every state reachable from the empty provider satisfies the invariant -/
theorem inv_reachable (ops : List Op) : Inv (run {} ops).1 :=
  inv_run ops {} ⟨by simp, by simp⟩

/-- **what is stored for a parameter the table knows comes from the announced set**: for every table, every metadata and every value -/
theorem filtered_value_is_announced (table : List (String × String)) (announced : String → Option (List String)) (k v v' sup : String) (l : List String)
    (hk : lookupS table k = some sup) (ha : announced sup = some l) (h : filterParam table announced k v = some v') : v' = v ∧ v ∈ l := by
  unfold filterParam at h
  rw [hk] at h
  simp only [ha] at h
  split at h
  · rename_i hc
    exact ⟨(Option.some.inj h).symm, by simpa using hc⟩
  · cases h

/-- … a value outside the announced set is dropped … -/
theorem unannounced_value_dropped (table : List (String × String)) (announced : String → Option (List String)) (k v sup : String) (l : List String)
    (hk : lookupS table k = some sup) (ha : announced sup = some l) (hv : v ∉ l) : filterParam table announced k v = none := by
  unfold filterParam
  rw [hk]
  simp only [ha]
  split
  · rename_i hc; exact absurd (by simpa using hc) hv
  · rfl

/-- … and a parameter the table does NOT know passes whatever its value — which is why the table has to know every algorithm parameter: -/
theorem unknown_parameter_passes (table : List (String × String)) (announced : String → Option (List String)) (k v : String)
    (hk : lookupS table k = none) : filterParam table announced k v = some v := by
  unfold filterParam; rw [hk]

/-- **generated obligation** (tables regenerated from /repo on every run): every algorithm parameter of the registration request schema
    is in the table the endpoint filters by, mapped to a parameter of the provider metadata schema -/
theorem every_alg_param_is_filtered :
    ∀ p ∈ Gen.regAlgParams, ∃ s, lookupS Gen.register2preferred p = some s ∧ s ∈ Gen.providerMetadataParams := by
  decide +kernel

/-- hence: whatever is stored for ANY algorithm parameter of the schema is a value the provider announces for it (when it announces a set) -/
theorem registered_algorithms_are_announced (announced : String → Option (List String)) (p v v' : String) (hp : p ∈ Gen.regAlgParams)
    (h : filterParam Gen.register2preferred announced p v = some v') :
    ∃ s, lookupS Gen.register2preferred p = some s ∧ (∀ l, announced s = some l → v' = v ∧ v ∈ l) := by
  obtain ⟨s, hs, _⟩ := every_alg_param_is_filtered p hp
  exact ⟨s, hs, fun l hl => filtered_value_is_announced _ _ p v v' s l hs hl h⟩

end Idpy.Props.C19
