/-
C04 — tokens are unforgeable, class-separated and bound to their session.
-/
import IdpyVerif.Model.Resolve
import IdpyVerif.Proofs.Handler
import IdpyVerif.Gen.Tables
namespace Idpy.Props.C04
open Idpy Idpy.Resolve

/-- **honoured ⇒ minted, unmodified, right class** — for EVERY decode function (no hypothesis on
    the cipher/JWS layer): whatever an endpoint honours is string-equal to a token this provider
    minted, of a class the slot accepts, still active -/
theorem honoured_is_minted (decode : Decode) (minted : List Minted) (slot : Slot) (s : Str) (sid : Nat)
    (h : honour decode minted slot s = some sid) :
    ∃ t ∈ minted, t.value = s ∧ slotAccepts slot t.cls = true ∧ t.active = true ∧ t.session = sid := by
  unfold honour at h
  split at h
  · simp at h
  · rename_i sid' _
    split at h
    · rename_i t ht
      split at h
      · rename_i hc
        simp only [Option.some.injEq] at h
        have hp := List.find?_some ht
        simp only [decide_eq_true_eq] at hp
        exact ⟨t, List.mem_of_find?_eq_some ht, hp.2, hc.1, hc.2, by rw [← h]; exact hp.1⟩
      · simp at h
    · simp at h

/-- altered, truncated, re-encoded, foreign or re-signed values — anything that is not
    string-equal to a minted token — are refused in every slot -/
theorem unminted_refused (decode : Decode) (minted : List Minted) (slot : Slot) (s : Str)
    (h : ∀ t ∈ minted, t.value ≠ s) : honour decode minted slot s = none := by
  cases hh : honour decode minted slot s with
  | none => rfl
  | some sid =>
    obtain ⟨t, ht, hv, _⟩ := honoured_is_minted decode minted slot s sid hh
    exact absurd hv (h t ht)

/-- when honoured, the session used to answer is the one the token was minted in — provided
    token values are unique (freshness of the random part) -/
theorem honoured_resolves_to_minting_session (decode : Decode) (minted : List Minted) (slot : Slot) (s : Str) (sid : Nat)
    (huniq : ∀ a ∈ minted, ∀ b ∈ minted, a.value = b.value → a.session = b.session)
    (h : honour decode minted slot s = some sid) (t : Minted) (ht : t ∈ minted) (hv : t.value = s) :
    t.session = sid := by
  obtain ⟨t', ht', hv', _, _, hs⟩ := honoured_is_minted decode minted slot s sid h
  rw [← hs]; exact huniq t ht t' ht' (hv.trans hv'.symm)

/-- class separation: the full slot × class table -/
theorem class_separation :
    slotAccepts .userinfo .refresh = false ∧ slotAccepts .userinfo .idtoken = false ∧ slotAccepts .userinfo .code = false ∧
    slotAccepts .refreshGrant .code = false ∧ slotAccepts .refreshGrant .access = false ∧
    slotAccepts .tokenCode .access = false ∧ slotAccepts .tokenCode .refresh = false ∧
    slotAccepts .introspect .idtoken = false ∧ slotAccepts .introspect .code = false := by
  decide

/-- a genuine token of the wrong class is refused (whatever the handler layer does) -/
theorem wrong_class_refused (decode : Decode) (minted : List Minted) (slot : Slot) (s : Str)
    (h : ∀ t ∈ minted, t.value = s → slotAccepts slot t.cls = false) : honour decode minted slot s = none := by
  cases hh : honour decode minted slot s with
  | none => rfl
  | some sid =>
    obtain ⟨t, ht, hv, hc, _⟩ := honoured_is_minted decode minted slot s sid hh
    rw [h t ht hv] at hc; simp at hc

/-- non-vacuity: a minted active access token is honoured at userinfo when the handler resolves it -/
example : honour (fun _ _ => some 7) [{ value := [1], cls := .access, session := 7, active := true }] .userinfo [1] = some 7 := by
  decide

/-- bearer client authentication (revocation endpoint, after the fix for F-C04-a): a string speaks for a
    client only if it IS an access token this provider issued, unmodified, and that token is still
    usable — whatever the handler layer makes of the string -/
theorem bearer_auth_needs_live_access_token (decode : Decode) (minted : List Minted) (s : Str) (sid : Nat)
    (h : honour decode minted .bearerAuth s = some sid) :
    ∃ t ∈ minted, t.value = s ∧ t.cls = .access ∧ t.active = true ∧ t.session = sid := by
  obtain ⟨t, ht, hv, hc, ha, hs⟩ := honoured_is_minted decode minted .bearerAuth s sid h
  refine ⟨t, ht, hv, ?_, ha, hs⟩
  cases hcl : t.cls <;> simp [slotAccepts, hcl] at hc ⊢

/-! ### The handler layer itself (Model/Handler.lean): DefaultToken.info, TokenHandler.get_handler,
    the class tags of ALT_TOKEN_NAME and the handler order regenerated from the source (Gen.handlerTags).
    The cipher is idealised (a handler decrypts exactly what was encrypted under its key); nothing else is. -/
section HandlerLayer
open Idpy.Handler Idpy.LV

/-- the table-side obligation: class names are non-empty, pairwise distinct, and no class name is another
    (or its own) alternative tag -/
def tagsOk (tags : List (Str × Str)) : Bool :=
  tags.all fun a => !a.1.isEmpty && tags.all fun b => (a == b) || (a.1 != b.1 && a.1 != b.2)

/-- holds for the table regenerated from /repo on this run -/
theorem generated_tags_ok : tagsOk Gen.handlerTags = true := by decide

theorem separated_of_tagsOk (tags : List (Str × Str)) (hok : tagsOk tags = true) (hs : List H)
    (hall : ∀ h ∈ hs, (h.name, h.alt) ∈ tags) (h : H) (hm : h ∈ hs) : Separated h hs ∧ h.name ≠ [] := by
  unfold tagsOk at hok
  rw [List.all_eq_true] at hok
  have ha := hok _ (hall h hm)
  simp only [Bool.and_eq_true, Bool.not_eq_true', List.all_eq_true] at ha
  refine ⟨?_, ?_⟩
  · intro h' hm'
    have hb := ha.2 _ (hall h' hm')
    simp only [Bool.or_eq_true, beq_iff_eq, Prod.mk.injEq, Bool.and_eq_true, bne_iff_ne, ne_eq] at hb
    rcases hb with ⟨h1, h2⟩ | h3
    · by_cases hk : h'.key = h.key
      · left; cases h; cases h'; simp_all
      · right; left; exact hk
    · right; right; exact h3
  · intro he; simp [he] at ha

/-- **every genuine token is resolved by the handler of its own class**, whatever keys the handlers use (one key
    shared by all of them included), whatever the order, for every random part, session id and expiry text:
    no other handler of the list claims it and none makes the search fail -/
theorem genuine_token_found_by_own_handler (hs : List H) (hall : ∀ h ∈ hs, (h.name, h.alt) ∈ Gen.handlerTags)
    (h : H) (hm : h ∈ hs) (rnd sid exp : Str) (hl : LastOk [rnd, h.name, sid, exp]) :
    getHandler hs (mint h rnd sid exp) =
      some (some (h, { id := rnd, cls := h.name, sid := some sid, exp := some exp })) := by
  obtain ⟨hsep, hn⟩ := separated_of_tagsOk _ generated_tags_ok hs hall h hm
  exact getHandler_own hs h rnd sid exp hn hl hm hsep

/-- **what a handler accepts was encrypted under its own key and carries its own class tag** — with the key known
    to the provider only, a string resolves as class `c` only if the provider packed it as class `c` -/
theorem handler_accepts_only_own_key_and_tag (h : H) (t : Tok) (i : Info) (hi : info h t = .ok i) :
    t.key = h.key ∧ ∃ id cls rest, unpack t.plain = some (id :: cls :: rest) ∧ (cls = h.name ∨ cls = h.alt) ∧
      i.cls = h.name ∧ i.sid = rest.head? := by
  obtain ⟨hk, id, cls, rest, hu, hc, rfl⟩ := info_ok_inv h t i hi
  exact ⟨hk, id, cls, rest, hu, hc, rfl, rfl⟩

/-- a genuine token offered with `handler_key` naming ANOTHER class is refused by the session manager, shared key or not -/
theorem genuine_token_refused_in_other_slot (hs : List H) (hall : ∀ h ∈ hs, (h.name, h.alt) ∈ Gen.handlerTags)
    (h h' : H) (hm : h ∈ hs) (hne : h'.name ≠ h.name) (hfind : hs.find? (fun x => x.name = h'.name) = some h')
    (rnd sid exp : Str) (hl : LastOk [rnd, h.name, sid, exp]) :
    sidBy hs (some h'.name) (mint h rnd sid exp) = none := by
  have hm' : h' ∈ hs := List.mem_of_find?_eq_some hfind
  obtain ⟨hsep, hn⟩ := separated_of_tagsOk _ generated_tags_ok hs hall h hm
  have ht : tagOf h = h.name := by
    unfold tagOf; cases hh : h.name with
    | nil => exact absurd hh hn
    | cons a as => simp
  have hskip : info h' (mint h rnd sid exp) = .skip := by
    apply info_foreign h h' rnd sid exp (by rw [ht]; exact hl)
    rcases hsep h' hm' with h1 | h2 | h3
    · exact absurd (by rw [h1]) hne
    · exact Or.inl h2
    · exact Or.inr (by rw [ht]; exact h3)
  unfold sidBy
  simp [hfind, hskip]

/-- and with the right `handler_key` (or none) it resolves to the session id it was minted for -/
theorem genuine_token_resolves_to_its_sid (hs : List H) (hall : ∀ h ∈ hs, (h.name, h.alt) ∈ Gen.handlerTags)
    (h : H) (hm : h ∈ hs) (rnd sid exp : Str) (hl : LastOk [rnd, h.name, sid, exp]) (hsid : sid ≠ []) :
    sidBy hs none (mint h rnd sid exp) = some sid := by
  unfold sidBy
  rw [genuine_token_found_by_own_handler hs hall h hm rnd sid exp hl]
  cases sid with
  | nil => exact absurd rfl hsid
  | cons a as => simp

/-- non-vacuity: the generated table with ONE key for all handlers; an access token with an expiry text -/
example : getHandler (Gen.handlerTags.map fun p => ({ name := p.1, alt := p.2, key := 0 } : H))
      (mint { name := Wire.lit "access_token", alt := [84], key := 0 } [120] [115] [49]) =
    some (some ({ name := Wire.lit "access_token", alt := [84], key := 0 }, { id := [120], cls := Wire.lit "access_token", sid := some [115], exp := some [49] })) := by
  decide +kernel

end HandlerLayer

end Idpy.Props.C04
