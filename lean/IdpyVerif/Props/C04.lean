/-
C04 — tokens are unforgeable, class-separated and bound to their session.
-/
import IdpyVerif.Model.Resolve
namespace Idpy.Props.C04
open Idpy Idpy.Resolve

/-- **honoured ⇒ minted, unmodified, right class** — for EVERY decode function (no hypothesis on
    the cipher/JWS layer): whatever an endpoint honours is string-equal to a token this provider
    minted, of a class the slot accepts, still active -/
theorem honoured_is_minted (decode : Decode) (minted : List Minted) (slot : Slot) (s : Str) (sid : Nat)
    (h : honour decode minted slot s = some sid) :
    ∃ t ∈ minted, t.value = s ∧ slotAccepts slot t.cls = true ∧ t.active = true ∧ t.session = sid := by
  unfold honour at h
  split at h
  · simp at h
  · rename_i sid' _
    split at h
    · rename_i t ht
      split at h
      · rename_i hc
        simp only [Option.some.injEq] at h
        have hp := List.find?_some ht
        simp only [decide_eq_true_eq] at hp
        exact ⟨t, List.mem_of_find?_eq_some ht, hp.2, hc.1, hc.2, by rw [← h]; exact hp.1⟩
      · simp at h
    · simp at h

/-- altered, truncated, re-encoded, foreign or re-signed values — anything that is not
    string-equal to a minted token — are refused in every slot -/
theorem unminted_refused (decode : Decode) (minted : List Minted) (slot : Slot) (s : Str)
    (h : ∀ t ∈ minted, t.value ≠ s) : honour decode minted slot s = none := by
  cases hh : honour decode minted slot s with
  | none => rfl
  | some sid =>
    obtain ⟨t, ht, hv, _⟩ := honoured_is_minted decode minted slot s sid hh
    exact absurd hv (h t ht)

/-- when honoured, the session used to answer is the one the token was minted in — provided
    token values are unique (freshness of the random part) -/
theorem honoured_resolves_to_minting_session (decode : Decode) (minted : List Minted) (slot : Slot) (s : Str) (sid : Nat)
    (huniq : ∀ a ∈ minted, ∀ b ∈ minted, a.value = b.value → a.session = b.session)
    (h : honour decode minted slot s = some sid) (t : Minted) (ht : t ∈ minted) (hv : t.value = s) :
    t.session = sid := by
  obtain ⟨t', ht', hv', _, _, hs⟩ := honoured_is_minted decode minted slot s sid h
  rw [← hs]; exact huniq t ht t' ht' (hv.trans hv'.symm)

/-- class separation: the full slot × class table -/
theorem class_separation :
    slotAccepts .userinfo .refresh = false ∧ slotAccepts .userinfo .idtoken = false ∧ slotAccepts .userinfo .code = false ∧
    slotAccepts .refreshGrant .code = false ∧ slotAccepts .refreshGrant .access = false ∧
    slotAccepts .tokenCode .access = false ∧ slotAccepts .tokenCode .refresh = false ∧
    slotAccepts .introspect .idtoken = false ∧ slotAccepts .introspect .code = false := by
  decide

/-- a genuine token of the wrong class is refused (whatever the handler layer does) -/
theorem wrong_class_refused (decode : Decode) (minted : List Minted) (slot : Slot) (s : Str)
    (h : ∀ t ∈ minted, t.value = s → slotAccepts slot t.cls = false) : honour decode minted slot s = none := by
  cases hh : honour decode minted slot s with
  | none => rfl
  | some sid =>
    obtain ⟨t, ht, hv, hc, _⟩ := honoured_is_minted decode minted slot s sid hh
    rw [h t ht hv] at hc; simp at hc

/-- non-vacuity: a minted active access token is honoured at userinfo when the handler resolves it -/
example : honour (fun _ _ => some 7) [{ value := [1], cls := .access, session := 7, active := true }] .userinfo [1] = some 7 := by
  decide

/-- bearer client authentication (revocation endpoint, after the fix for F-C04-a): a string speaks for a
    client only if it IS an access token this provider issued, unmodified, and that token is still
    usable — whatever the handler layer makes of the string -/
theorem bearer_auth_needs_live_access_token (decode : Decode) (minted : List Minted) (s : Str) (sid : Nat)
    (h : honour decode minted .bearerAuth s = some sid) :
    ∃ t ∈ minted, t.value = s ∧ t.cls = .access ∧ t.active = true ∧ t.session = sid := by
  obtain ⟨t, ht, hv, hc, ha, hs⟩ := honoured_is_minted decode minted .bearerAuth s sid h
  refine ⟨t, ht, hv, ?_, ha, hs⟩
  cases hcl : t.cls <;> simp [slotAccepts, hcl] at hc ⊢

end Idpy.Props.C04
