/-
C12 — provider and relying party interoperate over the whole configuration space.

What is PROVED here is the protocol / negotiation logic for every cell of the product (the cell
type is finite: the theorems quantify over all of it, not over a sample): which cells complete,
which are refused and why, which artefacts and calls a completed flow consists of.  That the
serialisers and JOSE layers of both halves agree in each cell — and that the views of the result
agree — is observed cell by cell by the correspondence (partial by construction).
The sub / scope agreement between the provider's publication points is C18 `sub_consistent` and
C05; they are re-exported for the cross-view statement.
-/
import IdpyVerif.Model.Interop
import IdpyVerif.Props.C18
namespace Idpy.Props.C12
open Idpy Idpy.Interop

/-- **every cell whose response placement is defined completes**, whatever the other nine
    dimensions are: client authentication method, token formats, algorithms, encryption,
    request transport, PKCE never make the modelled flow fail -/
theorem supported_cells_complete (c : Cell) (offline : Bool) (h : placement c.rt c.rm ≠ none) :
    ∃ o, run c offline = some o ∧ Call.authorization ∈ o.calls := by
  unfold run
  cases hp : placement c.rt c.rm with
  | none => exact absurd hp h
  | some p => exact ⟨_, rfl, by simp⟩

/-- a flow is refused exactly for the two response_type × response_mode conflicts the provider's
    `response_mode()` knows -/
theorem refused_iff (c : Cell) (offline : Bool) :
    run c offline = none ↔ (c.rm = .query ∧ c.rt ≠ .code) ∨ (c.rm = .fragment ∧ c.rt = .code) := by
  unfold run placement
  cases c.rt <;> cases c.rm <;> simp [defaultPlacement]

/-- … one of which the specification demands (no ID token in a query) … -/
theorem query_refusal_is_required (c : Cell) (offline : Bool) (h : specAllows c.rt c.rm = false) :
    run c offline = none := by
  rw [refused_iff]
  left
  unfold specAllows at h
  cases hrt : c.rt <;> cases hrm : c.rm <;> simp_all

/-- … and one it does not: `code` with response_mode=fragment is allowed by the specification,
    advertised by both halves, and refused (F-C12-d) -/
theorem code_fragment_refused (c : Cell) (offline : Bool) (h1 : c.rt = .code) (h2 : c.rm = .fragment) :
    specAllows c.rt c.rm = true ∧ run c offline = none := by
  refine ⟨by simp [specAllows, h1, h2], ?_⟩
  rw [refused_iff]; right; exact ⟨h2, h1⟩

/-- what a completed flow consists of -/
theorem completed_flow_shape (c : Cell) (offline : Bool) (o : Outcome) (h : run c offline = some o) :
    -- the token endpoint is visited exactly when a code came back WITHOUT an access token beside it; user info whenever there is an access token
    o.tokenResponse = (o.codeFront && !o.tokenFront) ∧ o.userinfoCalled = o.accessToken ∧
    -- an ID token reaches the relying party — in front or through the token endpoint — except for the two response types that ask for none
    (o.idToken = false ↔ (c.rt = .codeToken ∨ c.rt = .token)) ∧ (o.idToken = (o.idTokenFront || o.tokenResponse)) ∧
    -- the relying party ends up with an access token except in the pure implicit ID-token flow
    (o.accessToken = false ↔ c.rt = .idToken) ∧
    -- a refresh token only comes with a token response and only when offline access was asked for
    (o.refreshToken = true → o.tokenResponse = true ∧ offline = true) ∧
    -- the ID token travels encrypted exactly when the client registered an encryption algorithm
    (o.idTokenEncrypted = true ↔ c.ienc ≠ .none) ∧
    -- the calls, in order
    o.calls = (if c.req = .pushed then [Call.pushed] else []) ++ [Call.authorization] ++
      (if o.tokenFront then [Call.userinfo] else if o.codeFront then [Call.token, Call.userinfo] else []) := by
  unfold run at h
  cases hp : placement c.rt c.rm with
  | none => rw [hp] at h; cases h
  | some p =>
    rw [hp] at h
    simp only [Option.some.injEq] at h
    subst h
    refine ⟨rfl, ?_, ?_, rfl, ?_, ?_, ?_, rfl⟩
    · cases c.rt <;> simp [hasTokenFront, hasCode]
    · cases c.rt <;> simp [hasIdTokenFront, hasCode, hasTokenFront]
    · cases c.rt <;> simp [hasCode, hasTokenFront]
    · intro hr
      simp only [Bool.and_eq_true] at hr
      exact ⟨by simp [hr.1.1, hr.1.2], hr.2⟩
    · simp

/-- the placement is the default of the response type unless a mode was asked for -/
theorem placement_default (c : Cell) (offline : Bool) (o : Outcome) (h : run c offline = some o) (hd : c.rm = .default) :
    o.placement = defaultPlacement c.rt := by
  unfold run at h
  rw [hd] at h
  simp only [placement, Option.some.injEq] at h
  subst h; rfl

/-- the subject the relying party sees is the one all the provider's publication points give (C18) -/
theorem sub_views_agree (sub : Str) :
    (Subject.views sub none).idToken = sub ∧ (Subject.views sub none).userinfo = sub ∧
    (Subject.views sub none).jwtAccess = sub ∧ (Subject.views sub none).introspection = sub :=
  Idpy.Props.C18.sub_consistent sub none

/-- non-vacuity: the number of cells, how many complete, a worked cell -/
theorem product_size :
    (allRT.length * allRM.length * allAM.length * allFmt.length * allFmt.length * allSig.length * allEnc.length * allUI.length * allReq.length * 2 = 301056) ∧
    ((allRT.flatMap fun rt => allRM.filter fun rm => (placement rt rm).isSome).length = 21) := by
  decide

example : (run { rt := .codeIdToken, rm := .formPost, am := .privateKeyJwt, atf := .jwt, rtf := .opaque, ialg := .hs256, ienc := .ecdhEs, ui := .enc,
                 req := .pushed, pkce := true } true).map (·.calls) = some [.pushed, .authorization, .token, .userinfo] := by decide

end Idpy.Props.C12
