/-
C07 — released user claims are bounded by what the token authorises.
-/
import IdpyVerif.Model.Claims
namespace Idpy.Props.C07
open Idpy Idpy.Claims

theorem upd1_keys (r : Restr) (k : Str) (s : Spec) : ∀ x ∈ (upd1 r k s).map (·.1), x ∈ r.map (·.1) ∨ x = k := by
  intro x hx
  unfold upd1 at hx
  split at hx
  · simp only [List.map_map, List.mem_map, Function.comp] at hx
    obtain ⟨e, he, rfl⟩ := hx
    split
    · right; rfl
    · left; exact List.mem_map.mpr ⟨e, he, rfl⟩
  · simp only [List.map_append, List.mem_append, List.map_cons, List.map_nil, List.mem_singleton] at hx
    rcases hx with h | h
    · left; exact h
    · right; exact h

theorem upd_keys (r more : Restr) : ∀ x ∈ (upd r more).map (·.1), x ∈ r.map (·.1) ∨ x ∈ more.map (·.1) := by
  unfold upd
  induction more generalizing r with
  | nil => intro x hx; left; simpa using hx
  | cons e es ih =>
    intro x hx
    simp only [List.foldl_cons] at hx
    rcases ih (upd1 r e.1 e.2) x hx with h | h
    · rcases upd1_keys r e.1 e.2 x h with h' | h'
      · left; exact h'
      · right; simp [h']
    · right; simp only [List.map_cons, List.mem_cons]; right; exact h

/-- the restriction for a release point mentions only keys from the four permitted sources:
    base claims, always-add claims, claims derived from the token's scopes (only when
    add_claims_by_scope is on) and the claims parameter of the authorization request -/
theorem restriction_upper_bound (cfg : PointCfg) (scopeClaims : List Str) (requested : Restr) :
    ∀ k ∈ (restriction cfg scopeClaims requested).map (·.1),
      k ∈ cfg.base.map (·.1) ∨ k ∈ cfg.always ∨ (cfg.byScope = true ∧ k ∈ scopeClaims) ∨ k ∈ requested.map (·.1) := by
  intro k hk
  unfold restriction at hk
  simp only at hk
  rcases upd_keys _ requested k hk with h | h
  · split at h
    · rename_i hb
      rcases upd_keys _ _ k h with h' | h'
      · rcases upd_keys _ _ k h' with h'' | h''
        · left; exact h''
        · right; left; simpa [List.map_map] using h''
      · right; right; left; exact ⟨hb, by simpa [List.map_map] using h'⟩
    · rcases upd_keys _ _ k h with h'' | h''
      · left; exact h''
      · right; left; simpa [List.map_map] using h''
  · right; right; right; exact h

/-- **release upper bound**: every released attribute is named by the restriction, is the
    user's stored attribute, exists, and matched its individual claim request -/
theorem release_upper_bound (info : Str → Option Str) (r : Restr) :
    ∀ p ∈ release info r, p.1 ∈ r.map (·.1) ∧ p.2 = info p.1 ∧ (info p.1).isSome = true := by
  intro p hp
  simp only [release, List.mem_map, List.mem_filter] at hp
  obtain ⟨e, ⟨he, hm⟩, rfl⟩ := hp
  refine ⟨List.mem_map.mpr ⟨e, he, rfl⟩, rfl, ?_⟩
  cases hi : info e.1 with
  | none => simp [claimsMatch, hi] at hm
  | some v => rfl

/-- `value` / `values` requests only ever remove: what is released under a specific request is
    released under `null` -/
theorem claims_match_monotone (v : Option Str) (s : Spec) (h : claimsMatch v s = true) : claimsMatch v .any = true := by
  cases v with
  | none => simp [claimsMatch] at h
  | some x => rfl

/-- nothing is released for a missing attribute, whatever the request says -/
theorem missing_attribute_never_released (s : Spec) : claimsMatch none s = false := rfl

/-- composed: a released attribute comes from one of the four permitted sources -/
theorem released_is_permitted (cfg : PointCfg) (scopeClaims : List Str) (requested : Restr) (info : Str → Option Str) :
    ∀ p ∈ release info (restriction cfg scopeClaims requested),
      (p.1 ∈ cfg.base.map (·.1) ∨ p.1 ∈ cfg.always ∨ (cfg.byScope = true ∧ p.1 ∈ scopeClaims) ∨ p.1 ∈ requested.map (·.1))
      ∧ p.2 = info p.1 := by
  intro p hp
  obtain ⟨h1, h2, _⟩ := release_upper_bound info _ p hp
  exact ⟨restriction_upper_bound cfg scopeClaims requested p.1 h1, h2⟩

/-! ### which rules apply -/

/-- the ID token of a flow that also returns a code or an access token (any response type other than
    `id_token` alone) is built with the rules of the ID-token release point only: whatever the client
    registered for userinfo plays no part -/
theorem hybrid_id_token_ignores_userinfo_rules (m : ModuleConf) (c1 c2 : ClientConf)
    (h1 : c1.bsNonEmpty = c2.bsNonEmpty) (h2 : c1.byScope (Wire.lit "id_token") = c2.byScope (Wire.lit "id_token"))
    (h3 : c1.always (Wire.lit "id_token") = c2.always (Wire.lit "id_token")) :
    resolvePoint m c1 (Wire.lit "id_token") (secondaryOf (Wire.lit "id_token") false) =
    resolvePoint m c2 (Wire.lit "id_token") (secondaryOf (Wire.lit "id_token") false) := by
  simp only [secondaryOf, resolvePoint]
  simp [h1, h2, h3]

/-- a release point never takes rules from another point unless that point is its secondary -/
theorem no_secondary_no_foreign_rules (m : ModuleConf) (cl : ClientConf) (point : Str) :
    (resolvePoint m cl point none).always = (if m.perClient then cl.always point else m.always) := by
  simp only [resolvePoint]
  split <;> simp

/-- with per-client rules switched off the client record plays no part at all -/
theorem module_rules_when_per_client_off (m : ModuleConf) (c1 c2 : ClientConf) (point : Str) (sec : Option Str)
    (h : m.perClient = false) : resolvePoint m c1 point sec = resolvePoint m c2 point sec := by
  simp [resolvePoint, h]

/-- audience enforcement: a requester outside the token's audience sees the token only if
    enforcement is off for THIS requester (its own record, else the endpoint's setting) -/
theorem aud_gate_sound (e : Bool) (cs : Option Bool) (inAud : Bool) (h : audGate e cs inAud = true) :
    inAud = true ∨ cs.getD e = false := by
  simp only [audGate, Bool.or_eq_true, Bool.not_eq_true'] at h
  rcases h with h | h
  · exact Or.inr h
  · exact Or.inl h

/-- … in particular, with enforcement on at the endpoint and no setting of its own, nothing -/
theorem outsider_sees_nothing : audGate true none false = false := rfl

end Idpy.Props.C07
