/-
C14 — the session database keeps users, clients and grants apart and consistent.
Property theorems only; helper lemmas live in Proofs/LV.lean, Proofs/Key.lean.
-/
import IdpyVerif.Proofs.LV
import IdpyVerif.Proofs.Key
import IdpyVerif.Proofs.SessionDB
import IdpyVerif.Proofs.SessionTree
import IdpyVerif.Gen.Tables
namespace Idpy.Props.C14
open Idpy Idpy.LV Idpy.SessionDB

/-- the divider the model uses is the one the source defines today (regenerated table) -/
theorem divider_matches_source : Gen.divider = [semi, semi] := by
  simp [Gen.divider, semi_eq]

/-- `lv_unpack(lv_pack(*xs)) == xs` for every list of strings whose last element does not end
    in whitespace (`LastOk`; forced: `lv_unpack` strips the text first). Values may contain
    `:` and digits freely. -/
theorem lv_roundtrip (xs : List Str) (h : LastOk xs) : unpack (pack xs) = some xs := by
  unfold unpack
  simp only [strip_pack xs h]
  exact unpackCore_pack xs _ (by omega)

/-- the guard is forced: a trailing space in the last value is lost -/
theorem lv_trailing_space_counterexample :
    unpack (pack [[97], [98, 32]]) = some [[97], [98]] := by decide +kernel

/-- `key.split(";;")` inverts `";;".join(path)` on separator-free paths -/
theorem key_roundtrip (p : List Str) (h : SepFree p) : splitKey (joinKey p) = p :=
  split_join p h

/-- distinct (user, client, grant) paths never share a database key -/
theorem key_injective (p q : List Str) (hp : SepFree p) (hq : SepFree q)
    (h : joinKey p = joinKey q) : p = q := join_injective p q hp hq h

/-- without the guard two different paths share one key (F-C14-b) -/
theorem key_collision_counterexample :
    joinKey [[97, 59, 59, 98], [99]] = joinKey [[97], [98, 59, 59, 99]] ∧
    ([[97, 59, 59, 98], [99]] : List Str) ≠ [[97], [98, 59, 59, 99]] := by
  constructor
  · simp [joinKey, Split.join2, semi_eq]
  · decide

/-- and an identifier ending in `;` migrates its last character (F-C14-b) -/
theorem key_trailing_semi_counterexample :
    splitKey (joinKey [[97, 59], [98]]) = [[97], [59, 98]] := by
  simp [splitKey, joinKey, Split.split2, Split.join2, Split.split2Aux, semi_eq]

/-- every session id handed out resolves to exactly the path it was created for -/
theorem sid_resolves (rnd : Str) (p : List Str) (hp : SepFree p)
    (hl : ∀ c, (joinKey p).getLast? = some c → isWs c = false) :
    sidResolve (sidPlain rnd p) = some p := by
  unfold sidResolve sidPlain
  rw [lv_roundtrip [rnd, joinKey p] (by simpa [LastOk] using hl)]
  simp [key_roundtrip p hp]

/-- non-vacuity: an ordinary path satisfies both guards -/
example : SepFree [[100, 105], [99, 49], [103]] ∧
    (∀ c, (joinKey [[100, 105], [99, 49], [103]]).getLast? = some c → isWs c = false) := by
  refine ⟨by simp [SepFree, Split.SepFree, Split.Inner, Split.hasDiv, semi_eq], ?_⟩
  intro c hc
  simp [joinKey, Split.join2, semi_eq] at hc
  subst hc; simp [isWs_eq]

/-! ### the session tree (literal model of the flat dictionary) -/

/-- after ANY sequence of session creation, exchange grants, revocation at any level, removal,
    deletion at any depth and flush there is one node per path: the keys of the flat dictionary are
    pairwise different (distinct triples never share a stored node) -/
theorem session_tree_keys_unique (ops : List Op) : Uniq (runOps [] ops) := uniq_reachable ops

/-- a created session's grant is stored under user;;client;;grant exactly as created — for every
    identifier string and every previous content of the database -/
theorem created_grant_is_stored (db : DB) (u c g : Str) (k : Kind) :
    lookup (addGrant db u c g k) (joinKey [u, c, g]) = some { kind := k, id := g, subs := [], revoked := false } :=
  create_stores db u c g k

/-- creating a session leaves every node outside its own branch (the keys of user, user;;client and
    user;;client;;grant) exactly as it was -/
theorem creation_is_local (db : DB) (u c g : Str) (k : Kind) (x : Str)
    (hx : ∀ m, x ≠ joinKey ([u, c, g].take m)) : lookup (addGrant db u c g k) x = lookup db x :=
  create_is_local db u c g k x hx

/-- **every stored node is reachable from its parent.** After a session is created the user node
    lists the client node and the client node lists the grant node — for every identifier string
    (no guard needed: the three keys differ by their lengths), provided whatever was stored before
    under the user's and the client's key was a user / client node -/
theorem created_grant_is_linked (db : DB) (u c g : Str) (k : Kind)
    (hwf : ∀ j, j < 2 → ∀ n, lookup db (K [u, c, g] j) = some n → isInner n = true) :
    ∀ j, j + 1 < 3 →
      ∃ n, lookup (addGrant db u c g k) (K [u, c, g] j) = some n ∧ isInner n = true ∧ K [u, c, g] (j+1) ∈ n.subs :=
  create_links db u c g k hwf

/-- non-vacuity: the empty database meets the premise -/
example (u c g : Str) : ∀ j, j < 2 → ∀ n, lookup ([] : DB) (K [u, c, g] j) = some n → isInner n = true := by
  intro j _ n h; simp [lookup] at h

/-- **a removed session is gone, and nothing else is touched.** Removing a session whose leaf is a
    grant: afterwards nothing is stored under its key, and every node outside the branch (the keys of
    the prefixes of the path) is exactly what it was — for every identifier string -/
theorem removed_grant_is_gone (db : DB) (path : List Str) (db' : DB)
    (hleaf : ∀ n, lookup db (joinKey path) = some n → isInner n = false)
    (hpresent : hasKey db (path.headD []) = true) (hlen : 2 ≤ path.length) (hd : delete db path = some db') :
    lookup db' (joinKey path) = none ∨ lookup db (joinKey path) = none :=
  remove_grant_removes db path db' hleaf hpresent hlen hd

theorem removal_is_local (db : DB) (path : List Str) (db' : DB) (x : Str)
    (hx : ∀ m, x ≠ joinKey (path.take m))
    (hleaf : ∀ n, lookup db (joinKey path) = some n → isInner n = false)
    (hlen : 2 ≤ path.length) (hd : delete db path = some db') : lookup db' x = lookup db x :=
  remove_grant_is_local db path db' x hx hleaf hlen hd

/-- non-vacuity of the locality statement: another user's grant key is outside the branch -/
example : ∀ m, (joinKey [[98], [99], [103]]) ≠ joinKey ([[97], [99], [103]].take m) := by
  intro m
  match m with
  | 0 => decide
  | 1 => decide
  | 2 => decide
  | (n+3) => simp only [List.take_succ_cons, List.take_nil]; decide

/-- **revocation cascades over the whole subtree**: when `revoke_sub_tree(session_id, level)`
    completes, the node at that level and every node below it through `subordinate` links — at any
    depth — is revoked (for every database, every path and level) -/
theorem revoke_covers_subtree (db : DB) (path : List Str) (level : Nat) (db' : DB)
    (h : step db (.revoke path level) = some db') (x : Str)
    (hx : Reach db (joinKey (path.take (level+1))) x) :
    ∃ n, lookup db' x = some n ∧ n.revoked = true :=
  revokeTree_covers _ db _ db' h x hx

/-- … and nothing else: a node that is not at or below the revoked node is exactly as it was -/
theorem revoke_is_local (db : DB) (path : List Str) (level : Nat) (db' : DB)
    (h : step db (.revoke path level) = some db') (x : Str)
    (hx : ¬ Reach db (joinKey (path.take (level+1))) x) :
    lookup db' x = lookup db x :=
  revokeTree_local _ db _ db' h x hx

/-- revocation never changes the shape of the tree (keys, kinds, ids, links) and never takes a
    revocation back -/
theorem revoke_keeps_tree (db : DB) (path : List Str) (level : Nat) (db' : DB)
    (h : step db (.revoke path level) = some db') : Shape db db' :=
  shape_revokeTree _ db _ db' h

/-- non-vacuity: in the database after two sessions of one user at two clients, revoking the user
    (level 0) completes and the second client's grant is below the user node -/
example : (step (runOps [] [.create [117] [99] [103], .create [117] [100] [104]]) (.revoke [[117], [100], [104]] 0)).isSome = true := by
  decide +kernel
example : Reach (runOps [] [.create [117] [99] [103], .create [117] [100] [104]]) (joinKey [[117]]) (joinKey [[117], [100], [104]]) := by
  refine Reach.down (n := { kind := .user, id := [117], subs := [joinKey [[117], [99]], joinKey [[117], [100]]], revoked := false }) (by decide +kernel) (by decide +kernel) (s := joinKey [[117], [100]]) (by decide +kernel) ?_
  refine Reach.down (n := { kind := .client, id := [100], subs := [joinKey [[117], [100], [104]]], revoked := false }) (by decide +kernel) (by decide +kernel) (s := joinKey [[117], [100], [104]]) (by decide +kernel) (Reach.self _)

/-- **a removed node takes its whole subtree with it**: when `delete_sub_tree(key)` completes, nothing is stored any more under the key
    or under any key below it through `subordinate` links, at any depth — also when branches share nodes -/
theorem deleted_subtree_is_gone (db : DB) (key : Str) (db' : DB) (h : step db (.deleteSub key) = some db') (x : Str) (hx : Reach db key x) :
    lookup db' x = none :=
  deleteSubTree_covers _ db db key db' (Sub.refl _) h x hx

/-- … **and nothing else**: every node that is not at or below the deleted one is exactly as it was -/
theorem subtree_deletion_is_local (db : DB) (key : Str) (db' : DB) (h : step db (.deleteSub key) = some db') (x : Str) (hx : ¬ Reach db key x) :
    lookup db' x = lookup db x :=
  deleteSubTree_local _ db key db' h x hx

/-- the same for `Database.delete([user])` — removing a user: the whole branch goes, no other user's branch is touched -/
theorem deleted_user_is_gone (db : DB) (u : Str) (db' : DB) (hk : hasKey db u = true) (h : step db (.delete [u]) = some db') (x : Str) :
    (Reach db u x → lookup db' x = none) ∧ (¬ Reach db u x → lookup db' x = lookup db x) := by
  simp only [step, delete, hk, not_true_eq_false, if_false, List.length_singleton, if_true] at h
  exact ⟨deleteSubTree_covers _ db db u db' (Sub.refl _) h x, deleteSubTree_local _ db u db' h x⟩

/-- non-vacuity: deleting the user of the two-session database of the example above completes -/
example : (step (runOps [] [.create [117] [99] [103], .create [117] [100] [104]]) (.delete [[117]])).isSome = true := by decide +kernel
example : hasKey (runOps [] [.create [117] [99] [103], .create [117] [100] [104]]) [117] = true := by decide +kernel

end Idpy.Props.C14
