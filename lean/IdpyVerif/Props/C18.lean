/-
C18 — subject identifiers: consistent, opaque, follow the subject type.
Collision-freedom of SHA-256 enters as the HYPOTHESIS `Function.Injective H` of the theorems
that need it — never as an axiom.
-/
import IdpyVerif.Model.Subject
namespace Idpy.Props.C18
open Idpy Idpy.Subject

/-- the four views publish the grant's sub — whatever the user directory holds under the name `sub`
    and whether or not the claims rules release it at the point -/
theorem sub_consistent (sub : Str) (userSubAttr : Option Str) :
    (views sub userSubAttr).idToken = sub ∧ (views sub userSubAttr).userinfo = sub ∧
    (views sub userSubAttr).jwtAccess = sub ∧ (views sub userSubAttr).introspection = sub := by
  simp [views, addIfAbsent]

/-- a released user attribute `sub` is still not lost where there is no subject to protect (the rule
    is "add if absent", not "drop") -/
example : addIfAbsent none (some [2]) = some [2] := rfl

/-- stable across logins: the subject is a function of (type, user, sector, salt) -/
theorem sub_stable (H : Str → Str) (c : Client) (uid salt f1 f2 : Str) (h : typeOf c ≠ .ephemeral) :
    grantSub H c uid salt f1 = grantSub H c uid salt f2 := by
  unfold grantSub subFor
  cases ht : typeOf c <;> simp_all

/-- public subjects are equal across clients (any sectors, any redirect hosts) -/
theorem public_equal_across_clients (H : Str → Str) (c1 c2 : Client) (uid salt f1 f2 : Str)
    (h1 : typeOf c1 = .publicT) (h2 : typeOf c2 = .publicT) :
    grantSub H c1 uid salt f1 = grantSub H c2 uid salt f2 := by
  simp [grantSub, subFor, h1, h2, preimage]

/-- pairwise subjects agree within a sector -/
theorem pairwise_agrees_within_sector (H : Str → Str) (c1 c2 : Client) (uid salt f1 f2 : Str)
    (h1 : typeOf c1 = .pairwise) (h2 : typeOf c2 = .pairwise) (hs : sectorOf c1 = sectorOf c2) :
    grantSub H c1 uid salt f1 = grantSub H c2 uid salt f2 := by
  simp [grantSub, subFor, h1, h2, preimage, hs]

/-- pairwise subjects differ between sectors (collision-free hash) -/
theorem pairwise_differs_between_sectors (H : Str → Str) (hH : Function.Injective H) (c1 c2 : Client)
    (uid salt f1 f2 : Str) (h1 : typeOf c1 = .pairwise) (h2 : typeOf c2 = .pairwise) (hs : sectorOf c1 ≠ sectorOf c2) :
    grantSub H c1 uid salt f1 ≠ grantSub H c2 uid salt f2 := by
  simp only [grantSub, subFor, h1, h2, preimage]
  intro h
  have := hH h
  rw [List.append_assoc, List.append_assoc] at this
  exact hs (List.append_cancel_right (List.append_cancel_left this))

/-- different users get different public subjects (same salt) -/
theorem distinct_users_distinct_public_subs (H : Str → Str) (hH : Function.Injective H) (c : Client)
    (u1 u2 salt f1 f2 : Str) (h : typeOf c = .publicT) (hu : u1 ≠ u2) :
    grantSub H c u1 salt f1 ≠ grantSub H c u2 salt f2 := by
  simp only [grantSub, subFor, h, preimage]
  intro e
  exact hu (List.append_cancel_right (hH e))

/-- ephemeral subjects differ for every grant (fresh values) -/
theorem ephemeral_fresh (H : Str → Str) (c : Client) (uid salt f1 f2 : Str) (h : typeOf c = .ephemeral) (hf : f1 ≠ f2) :
    grantSub H c uid salt f1 ≠ grantSub H c uid salt f2 := by
  simpa [grantSub, subFor, h] using hf

/-- opacity in the model's terms: with the built-in functions a public or pairwise subject is
    an image of the hash — never the identifier itself unless the hash reproduces it -/
theorem sub_is_hash_image (H : Str → Str) (c : Client) (uid salt f : Str) (h : typeOf c ≠ .ephemeral) :
    ∃ x, grantSub H c uid salt f = H x := by
  unfold grantSub subFor
  cases ht : typeOf c
  · exact ⟨_, rfl⟩
  · exact ⟨_, rfl⟩
  · exact absurd ht h

/-- the endpoints follow the registration: the subject delivered for client `c` is computed with
    c's registered subject type and, for pairwise, c's sector (registered sector id, else the
    redirect host) -/
theorem endpoints_follow_registration (H : Str → Str) (c : Client) (uid salt f : Str) :
    grantSub H c uid salt f = subFor H (c.subjectType.getD .publicT) uid
      (if c.subjectType.getD .publicT = .pairwise then c.sectorId.getD c.redirectHost else []) salt f := rfl

/-- side result: `pairwise_id` concatenates uid and sector without a delimiter, so two
    DIFFERENT users can share a preimage across sectors (recorded as an observation) -/
theorem undelimited_concatenation_collides :
    preimage .pairwise [97, 98] [99] [] = preimage .pairwise [97] [98, 99] [] := by decide

end Idpy.Props.C18
