/-
C06 — responses go only to registered URIs and carry exactly what was issued.
-/
import IdpyVerif.Model.Redirect
import IdpyVerif.Proofs.UrlEnc
namespace Idpy.Props.C06
open Idpy Idpy.UrlEnc Idpy.Redirect

theorem norm_keeps (native : Bool) (p : Parsed) :
    (norm native p).scheme = p.scheme ∧ (norm native p).path = p.path ∧ (norm native p).params = p.params ∧
    (norm native p).fragment = p.fragment := by
  unfold norm
  split
  · unfold removePort; split <;> simp
  · simp

/-- acceptance implies a registered URI with equal scheme, path, params, (no) fragment and
    query multimap, and equal authority — for native clients up to the port of an http loopback
    address (`norm`).  `Parsed` is what urllib's parser yields for the percent-decoded request value. -/
theorem accept_means_registered (native oidc : Bool) (req : Parsed) (registered : List (Parsed × Query))
    (hne : registered ≠ []) (h : verifyUri native oidc req registered = .ok) :
    req.clean = true ∧ req.fragment = [] ∧ req.hostname ≠ none ∧
    ∃ r q, (r, q) ∈ registered ∧ req.query = q ∧ req.scheme = r.scheme ∧ req.path = r.path ∧
      req.params = r.params ∧ r.fragment = [] ∧ (norm native req).netloc = (norm native r).netloc := by
  unfold verifyUri at h
  split at h; · simp at h
  rename_i hclean
  split at h; · simp at h
  rename_i hfrag
  split at h; · simp at h
  rename_i hhost
  split at h; · simp at h
  split at h; · simp at h
  split at h
  · rename_i he; simp at he; exact absurd he hne
  · split at h
    · rename_i hany
      have hfrag' : req.fragment = [] := by simpa using hfrag
      refine ⟨by simpa using hclean, hfrag', by simpa using hhost, ?_⟩
      rw [List.any_eq_true] at hany
      obtain ⟨⟨r, q⟩, hmem, hm⟩ := hany
      simp only [matchesReg, sameBase, Bool.decide_and, Bool.and_eq_true, decide_eq_true_eq] at hm
      obtain ⟨⟨hs, hn, hp, hpa, hfr⟩, hq⟩ := hm
      have k1 := norm_keeps native req
      have k2 := norm_keeps native r
      refine ⟨r, q, hmem, hq, ?_, ?_, ?_, ?_, hn⟩
      · rw [← k1.1, hs, k2.1]
      · rw [← k1.2.1, hp, k2.2.1]
      · rw [← k1.2.2.1, hpa, k2.2.2.1]
      · rw [← k2.2.2.2, ← hfr, k1.2.2.2, hfrag']
    · simp at h

/-- a fragment-bearing, host-less, unclean or non-matching URI never verifies -/
theorem bad_uri_never_ok (native oidc : Bool) (req : Parsed) (registered : List (Parsed × Query))
    (h : req.clean = false ∨ req.fragment ≠ [] ∨ req.hostname = none) :
    verifyUri native oidc req registered ≠ .ok := by
  unfold verifyUri
  rcases h with h | h | h
  · simp [h]
  · split; · simp
    simp [h]
  · split; · simp
    split; · simp
    simp [h]

/-! ### delivery: the parameters decode to exactly what was issued -/

theorem splitFirst_no (c : Nat) (s : Str) (h : c ∉ s) : splitFirst c s = (s, none) := by
  induction s with
  | nil => rfl
  | cons x xs ih =>
    have hx : x ≠ c := fun e => h (by simp [e])
    simp [splitFirst, hx, ih (fun hm => h (by simp [hm]))]

/-- fragment mode: everything after the first `#` of the delivered string parses back to the
    issued parameters, and the part before it is the accepted URI, untouched -/
theorem fragment_delivery (uri : Str) (ps : List (List Nat × List Nat)) (hps : PairsOk ps)
    (hnb : ∀ p ∈ ps, p.2 ≠ []) (hne : ps ≠ []) (hu : 35 ∉ uri) :
    ∃ frag, splitFirst 35 (deliver .fragment uri ps) = (uri, some frag) ∧ parseQsl false frag = ps := by
  have hempty : ps.isEmpty = false := by cases ps <;> simp_all
  refine ⟨urlencode ps, ?_, ?_⟩
  · simp only [deliver, hempty, Bool.false_eq_true, if_false]
    exact splitFirst_at 35 uri _ hu
  · rw [parseQsl_urlencode false ps hps]
    exact List.filter_eq_self.mpr (fun p hp => by simp [keepPair, hnb p hp])

/-- query mode on a URI without query -/
theorem query_delivery (uri : Str) (ps : List (List Nat × List Nat)) (hps : PairsOk ps)
    (hnb : ∀ p ∈ ps, p.2 ≠ []) (hne : ps ≠ []) (hu : 63 ∉ uri) :
    ∃ q, splitFirst 63 (deliver .query uri ps) = (uri, some q) ∧ parseQsl false q = ps := by
  have hempty : ps.isEmpty = false := by cases ps <;> simp_all
  have hc : uri.contains 63 = false := by simpa using hu
  refine ⟨urlencode ps, ?_, ?_⟩
  · simp only [deliver, hempty, Bool.false_eq_true, if_false, hc]
    exact splitFirst_at 63 uri _ hu
  · rw [parseQsl_urlencode false ps hps]
    exact List.filter_eq_self.mpr (fun p hp => by simp [keepPair, hnb p hp])

/-- RP-initiated logout (after the fix for F-C06-d): the post-logout target is the verified URI plus
    exactly the state the client sent — for a URI without a query part the added query parses back
    to that one parameter, whatever characters the state consists of -/
theorem post_logout_target (uri : Str) (state : List Nat) (hs : PairsOk [([115, 116, 97, 116, 101], state)])
    (hne : state ≠ []) (hu : 63 ∉ uri) :
    ∃ q, splitFirst 63 (deliver .query uri [([115, 116, 97, 116, 101], state)]) = (uri, some q) ∧
      parseQsl false q = [([115, 116, 97, 116, 101], state)] :=
  query_delivery uri _ hs (by intro p hp; simp at hp; subst hp; exact hne) (by simp) hu

/-- no request-supplied value can add a parameter, end the query or start a fragment: its
    encoding contains none of `& = # ?` and no raw space -/
theorem value_cannot_escape (v : List Nat) (h : AllBytes v) :
    amp ∉ quotePlus v ∧ eqc ∉ quotePlus v ∧ 35 ∉ quotePlus v ∧ 63 ∉ quotePlus v ∧ sp ∉ quotePlus v := by
  refine ⟨amp_not_in_quote v h, eqc_not_in_quote v h, ?_, ?_, ?_⟩
  · exact quotePlus_no v h 35 (by rw [isSafe_eq]; decide) (by rw [plus_eq]; decide) (by rw [pct_eq]; decide)
  · exact quotePlus_no v h 63 (by rw [isSafe_eq]; decide) (by rw [plus_eq]; decide) (by rw [pct_eq]; decide)
  · exact quotePlus_no v h sp (by rw [isSafe_eq, sp_eq]; decide) (by rw [plus_eq, sp_eq]; decide) (by rw [pct_eq, sp_eq]; decide)

/-- the delivered string always starts with the accepted URI: values cannot change the target -/
theorem target_unchanged (mode : Mode) (uri : Str) (ps : List (List Nat × List Nat)) :
    uri <+: deliver mode uri ps := by
  unfold deliver
  split
  · exact List.prefix_refl _
  · cases mode
    · simp only; split <;> exact List.prefix_append _ _
    · exact List.prefix_append _ _

/-! ### form_post: no markup from request-supplied values (after the fix for F-C06-a) -/

theorem escapeChar_no_markup (c : Nat) : ∀ x ∈ escapeChar c, isMarkup x = false := by
  intro x hx
  unfold escapeChar at hx
  split at hx
  · simp [Wire.lit] at hx; rcases hx with rfl | rfl | rfl | rfl | rfl <;> decide
  · split at hx
    · simp [Wire.lit] at hx; rcases hx with rfl | rfl | rfl | rfl <;> decide
    · split at hx
      · simp [Wire.lit] at hx; rcases hx with rfl | rfl | rfl | rfl <;> decide
      · split at hx
        · simp [Wire.lit] at hx; rcases hx with rfl | rfl | rfl | rfl | rfl | rfl <;> decide
        · split at hx
          · simp [Wire.lit] at hx; rcases hx with rfl | rfl | rfl | rfl | rfl | rfl <;> decide
          · simp at hx; subst hx
            simp [isMarkup]; omega

/-- whatever string a request supplies (state, nonce, error text, the action URL): its escaped
    form contains no `<`, `>`, `"` or `'`, so it cannot close the attribute or open a tag -/
theorem escape_has_no_markup (s : Str) : ∀ x ∈ escape s, isMarkup x = false := by
  intro x hx
  simp only [escape, List.mem_flatMap] at hx
  obtain ⟨c, _, hc⟩ := hx
  exact escapeChar_no_markup c x hc

theorem unescape_cons_ne (c : Nat) (t : Str) (h : c ≠ 38) : unescape (c :: t) = c :: unescape t := by
  conv => lhs; unfold unescape
  split <;> first | (exfalso; exact h rfl) | rfl | skip
  all_goals simp_all
theorem esc_flat (c : Nat) (t : Str) : escape (c :: t) = escapeChar c ++ escape t := by
  simp [escape]
/-- an HTML parser recovers exactly the issued value from its escaped form: the form fields
    decode to what was issued -/
theorem unescape_escape (s : Str) : unescape (escape s) = s := by
  induction s with
  | nil => rfl
  | cons c t ih =>
    rw [esc_flat]
    unfold escapeChar
    split
    · rename_i h; subst h; simp [Wire.lit, unescape, ih]
    · split
      · rename_i h; subst h; simp [Wire.lit, unescape, ih]
      · split
        · rename_i h; subst h; simp [Wire.lit, unescape, ih]
        · split
          · rename_i h; subst h; simp [Wire.lit, unescape, ih]
          · split
            · rename_i h; subst h; simp [Wire.lit, unescape, ih]
            · rename_i h1 _ _ _ _
              simp only [List.singleton_append]
              rw [unescape_cons_ne c _ h1, ih]

/-- the unfixed renderer is the identity on values: markup passes through (F-C06-a, fixed) -/
theorem unescaped_counterexample : ∃ s : Str, ∃ x ∈ s, isMarkup x = true := ⟨[34, 62], 34, by simp, by decide⟩

end Idpy.Props.C06
