import IdpyVerif.Model.LV
namespace Idpy.LV

def readDigits (acc : Nat) : Str → Nat
  | [] => acc
  | c :: cs => readDigits (acc * 10 + dval c) cs

def AllDig (l : Str) : Prop := ∀ c ∈ l, isDig c = true ∧ c ≠ colon

theorem allDig_dch {d} (h : d < 10) : isDig (dch d) = true ∧ dch d ≠ colon := by
  simp [isDig_eq, dch_eq, colon_eq]; omega

theorem parseLen_digits (ds rest : Str) (acc : Nat) (seen : Bool) (h : AllDig ds)
    (hs : seen = true ∨ ds ≠ []) :
    parseLen acc seen (ds ++ colon :: rest) = some (readDigits acc ds, rest) := by
  induction ds generalizing acc seen with
  | nil =>
    rcases hs with hs | hs
    · simp [parseLen, readDigits, hs]
    · exact absurd rfl hs
  | cons c cs ih =>
    have hc := h c (by simp)
    have hcs : AllDig cs := fun x hx => h x (by simp [hx])
    simp [parseLen, readDigits, hc.1, hc.2, ih _ true hcs (Or.inl rfl)]

theorem readDigits_append (a : Nat) (xs ys : Str) :
    readDigits a (xs ++ ys) = readDigits (readDigits a xs) ys := by
  induction xs generalizing a with
  | nil => rfl
  | cons c cs ih => simp [readDigits, ih]

theorem digitsAux_spec (fuel n : Nat) (acc : Str) (hf : n < fuel) :
    ∃ pre, digitsAux fuel n acc = pre ++ acc ∧ AllDig pre ∧ pre ≠ [] ∧
      ∀ a, readDigits a pre = a * 10 ^ pre.length + n := by
  induction fuel generalizing n acc with
  | zero => omega
  | succ f ih =>
    unfold digitsAux
    split
    · rename_i h10
      refine ⟨[dch n], by simp, ?_, by simp, ?_⟩
      · intro c hc; simp at hc; subst hc; exact allDig_dch h10
      · intro a; simp [readDigits, dval_eq, dch_eq]
    · rename_i h10
      have hq : n / 10 < f := by omega
      obtain ⟨pre, hpre, hdig, _, hval⟩ := ih (n / 10) (dch (n % 10) :: acc) hq
      refine ⟨pre ++ [dch (n % 10)], by simp [hpre], ?_, by simp, ?_⟩
      · intro c hc; simp at hc; rcases hc with hc | rfl
        · exact hdig c hc
        · exact allDig_dch (by omega)
      · intro a
        simp [readDigits_append, hval a, readDigits, Nat.pow_succ, dval_eq, dch_eq]
        have : n = 10 * (n / 10) + n % 10 := by omega
        rw [Nat.add_mul, Nat.mul_assoc]
        omega

theorem digits_spec (n : Nat) : AllDig (digits n) ∧ digits n ≠ [] ∧ readDigits 0 (digits n) = n := by
  obtain ⟨pre, hpre, hdig, hne, hval⟩ := digitsAux_spec (n+1) n [] (by omega)
  simp [digits, hpre, hdig, hne, hval 0]

theorem parseLen_digits_n (n : Nat) (rest : Str) :
    parseLen 0 false (digits n ++ colon :: rest) = some (n, rest) := by
  obtain ⟨h1, h2, h3⟩ := digits_spec n
  rw [parseLen_digits _ _ _ _ h1 (Or.inr h2), h3]

theorem packOne_ne_nil (a : Str) : packOne a ≠ [] := by
  have := (digits_spec a.length).2.1
  unfold packOne
  cases h : digits a.length with
  | nil => exact absurd h this
  | cons => simp

theorem packOne_length_pos (a : Str) (r : Str) : r.length < (packOne a ++ r).length := by
  have := packOne_ne_nil a
  cases h : packOne a with
  | nil => exact absurd h this
  | cons x xs => simp; omega

/-- core round trip, any sufficient fuel -/
theorem unpackCore_pack (xs : List Str) (fuel : Nat) (h : (pack xs).length < fuel) :
    unpackCore fuel (pack xs) = some xs := by
  induction xs generalizing fuel with
  | nil => cases fuel with
    | zero => omega
    | succ f => simp [pack, unpackCore]
  | cons a as ih =>
    cases fuel with
    | zero => omega
    | succ f =>
      have hlen : (pack as).length < f := by
        have := packOne_length_pos a (pack as)
        simp only [pack] at h; omega
      have hne : packOne a ++ pack as ≠ [] := by
        have := packOne_ne_nil a
        cases h' : packOne a with
        | nil => exact absurd h' this
        | cons => simp
      have hemp : (packOne a ++ pack as).isEmpty = false := by
        cases hp : packOne a ++ pack as with
        | nil => exact absurd hp hne
        | cons c cs => rfl
      have : packOne a ++ pack as = digits a.length ++ colon :: (a ++ pack as) := by
        simp [packOne]
      simp only [pack, unpackCore, hemp]
      rw [this, parseLen_digits_n]
      simp [ih f hlen]

/-- the first character of a non-empty pack is a digit -/
theorem pack_head_digit (a : Str) (r : Str) : ∃ c cs, packOne a ++ r = c :: cs ∧ isDig c = true := by
  obtain ⟨h1, h2, _⟩ := digits_spec a.length
  unfold packOne
  cases h : digits a.length with
  | nil => exact absurd h h2
  | cons c cs =>
    refine ⟨c, cs ++ colon :: a ++ r, by simp, ?_⟩
    exact (h1 c (by simp [h])).1

theorem dig_not_ws (c : Nat) (h : isDig c = true) : isWs c = false := by
  simp [isDig_eq] at h; simp [isWs_eq]; omega

theorem colon_not_ws : isWs colon = false := by simp [isWs_eq, colon_eq]

theorem stripL_pack (xs : List Str) : stripL (pack xs) = pack xs := by
  cases xs with
  | nil => simp [pack, stripL]
  | cons a as =>
    obtain ⟨c, cs, h, hd⟩ := pack_head_digit a (pack as)
    simp [pack, stripL, h, dig_not_ws c hd]

/-- last character of the packed text is not whitespace -/
def LastOk : List Str → Prop
  | [] => True
  | [a] => ∀ c, a.getLast? = some c → isWs c = false
  | _ :: b :: bs => LastOk (b :: bs)

theorem stripR_of_last (s : Str) (h : ∀ c, s.getLast? = some c → isWs c = false) : stripR s = s := by
  unfold stripR
  cases hr : s.reverse with
  | nil => simp at hr; simp [hr]
  | cons c cs =>
    have : s.getLast? = some c := by
      rw [← List.head?_reverse, hr]; rfl
    have hc := h c this
    simp [List.dropWhile, hc]
    have := congrArg List.reverse hr
    simp at this; exact this.symm

theorem getLast?_append_ne (a b : Str) (hb : b ≠ []) : (a ++ b).getLast? = b.getLast? := by
  simp [List.getLast?_append]
  cases h : b.getLast? with
  | none => simp [List.getLast?_eq_none_iff] at h; exact absurd h hb
  | some x => simp

theorem pack_last (xs : List Str) (h : LastOk xs) : ∀ c, (pack xs).getLast? = some c → isWs c = false := by
  induction xs with
  | nil => intro c hc; simp [pack] at hc
  | cons a as ih =>
    cases as with
    | nil =>
      intro c hc
      simp only [pack, List.append_nil, packOne] at hc
      cases ha : a with
      | nil =>
        subst ha
        rw [getLast?_append_ne _ _ (by simp)] at hc
        simp at hc; subst hc; exact colon_not_ws
      | cons x xs =>
        have : (colon :: a).getLast? = a.getLast? := by
          rw [show colon :: a = [colon] ++ a from rfl, getLast?_append_ne _ _ (by simp [ha])]
        rw [getLast?_append_ne _ _ (by simp), this] at hc
        exact h c hc
    | cons b bs =>
      intro c hc
      have hne : pack (b :: bs) ≠ [] := by
        simp only [pack]
        have := packOne_ne_nil b
        cases h' : packOne b with
        | nil => exact absurd h' this
        | cons => simp
      simp only [pack] at hc ⊢
      rw [getLast?_append_ne _ _ (by simpa [pack] using hne)] at hc
      exact ih h c (by simpa [pack] using hc)

theorem strip_pack (xs : List Str) (h : LastOk xs) : strip (pack xs) = pack xs := by
  unfold strip
  rw [stripL_pack, stripR_of_last _ (pack_last xs h)]

end Idpy.LV

namespace Idpy.LV
/-- `lv_unpack(lv_pack(*xs)) == xs` when the last element does not end in whitespace -/
theorem lv_pack_unpack (xs : List Str) (h : LastOk xs) : unpack (pack xs) = some xs := by
  unfold unpack
  simp only [strip_pack xs h]
  exact unpackCore_pack xs _ (by omega)
/-- the length-prefixed framing is uniquely decodable: **`lv_pack` is injective** (no guard needed) -/
theorem pack_injective (xs ys : List Str) (h : pack xs = pack ys) : xs = ys := by
  have h1 := unpackCore_pack xs ((pack xs).length + 1) (Nat.lt_succ_self _)
  have h2 := unpackCore_pack ys ((pack xs).length + 1) (by rw [h]; exact Nat.lt_succ_self _)
  rw [← h] at h2
  rw [h1] at h2
  exact Option.some.inj h2

end Idpy.LV
