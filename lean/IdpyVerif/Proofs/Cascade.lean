/-
The recursive revocation `Grant.revoke_token(based_on=…, recursive=True)` reaches EVERY token derived
from the revoked one, however long the `based_on` chain: the recursion of the model carries a fuel
(`toks.length + 1`), and in every state in which a token is younger than the token it is based on
(`BLt`, part of the reachable-state invariant `SInv`) that fuel is enough.
-/
import IdpyVerif.Proofs.Provider
namespace Idpy.Provider

/-- `t` is derived from the token with value `v` inside grant `gid` (any number of `based_on` links);
    peeled from the top, the way the recursion walks -/
inductive Desc (toks : List Tok) (gid : Nat) : Nat → Tok → Prop
  | child {v : Nat} {t : Tok} : t ∈ toks → t.gid = gid → t.basedOn = some v → Desc toks gid v t
  | via {v : Nat} {u t : Tok} : u ∈ toks → u.gid = gid → u.basedOn = some v → Desc toks gid u.id t → Desc toks gid v t

/-- the same with the number of links bounded -/
def DescN : Nat → List Tok → Nat → Nat → Tok → Prop
  | 0, _, _, _, _ => False
  | n+1, toks, gid, v, t =>
    (t ∈ toks ∧ t.gid = gid ∧ t.basedOn = some v) ∨
      ∃ u, u ∈ toks ∧ u.gid = gid ∧ u.basedOn = some v ∧ DescN n toks gid u.id t

theorem DescN.mono {n m : Nat} (h : n ≤ m) {toks : List Tok} {gid v : Nat} {t : Tok} (hd : DescN n toks gid v t) :
    DescN m toks gid v t := by
  induction n generalizing m v with
  | zero => exact absurd hd (by simp [DescN])
  | succ n ih =>
    cases m with
    | zero => omega
    | succ m =>
      unfold DescN at hd ⊢
      rcases hd with h0 | ⟨u, hu, hg, hb, hr⟩
      · exact Or.inl h0
      · exact Or.inr ⟨u, hu, hg, hb, ih (Nat.le_of_succ_le_succ h) hr⟩

/-- every token younger than its base -/
def BLt (toks : List Tok) : Prop := ∀ t ∈ toks, ∀ b, t.basedOn = some b → b < t.id

/-- number of stored tokens with a value above `v` -/
def above (toks : List Tok) (v : Nat) : Nat := (toks.filter (fun x => v < x.id)).length

theorem above_le (toks : List Tok) (v : Nat) : above toks v ≤ toks.length := List.length_filter_le _ _

theorem above_lt (toks : List Tok) (v : Nat) (u : Tok) (hu : u ∈ toks) (hv : v < u.id) :
    above toks u.id < above toks v := by
  unfold above
  induction toks with
  | nil => cases hu
  | cons x xs ih =>
    have hmono : (xs.filter (fun y => u.id < y.id)).length ≤ (xs.filter (fun y => v < y.id)).length := by
      clear ih hu
      induction xs with
      | nil => simp
      | cons y ys ihy =>
        simp only [List.filter_cons]
        by_cases h1 : u.id < y.id
        · have h2 : v < y.id := Nat.lt_trans hv h1
          simp only [h1, h2, decide_true, if_true, List.length_cons]; omega
        · by_cases h2 : v < y.id
          · simp only [h1, h2, decide_true, decide_false, if_true, List.length_cons]; simp; omega
          · simp only [h1, h2, decide_false]; simpa using ihy
    simp only [List.filter_cons]
    rcases List.mem_cons.mp hu with rfl | hx
    · have h1 : ¬ (u.id < u.id) := Nat.lt_irrefl _
      simp only [h1, hv, decide_true, decide_false, if_true, List.length_cons]; simp; omega
    · have := ih hx
      by_cases h1 : u.id < x.id
      · have h2 : v < x.id := Nat.lt_trans hv h1
        simp only [h1, h2, decide_true, if_true, List.length_cons]; omega
      · by_cases h2 : v < x.id
        · simp only [h1, h2, decide_true, decide_false, if_true, List.length_cons]; simp; omega
        · simp only [h1, h2, decide_false]; simpa using this

/-- with acyclic `based_on` links the chain to a derived token is no longer than the token list -/
theorem desc_bounded {toks : List Tok} (hb : BLt toks) {gid v : Nat} {t : Tok} (hd : Desc toks gid v t) :
    DescN (above toks v) toks gid v t := by
  induction hd with
  | @child v t ht hg hbo =>
    have hv : v < t.id := hb t ht v hbo
    have : 0 < above toks v := Nat.lt_of_le_of_lt (Nat.zero_le _) (above_lt toks v t ht hv)
    obtain ⟨k, hk⟩ : ∃ k, above toks v = k + 1 := ⟨above toks v - 1, by omega⟩
    rw [hk]; unfold DescN
    exact Or.inl ⟨ht, hg, hbo⟩
  | @via v u t hu hg hbo _ ih =>
    have hv : v < u.id := hb u hu v hbo
    have hlt := above_lt toks v u hu hv
    obtain ⟨k, hk⟩ : ∃ k, above toks v = k + 1 := ⟨above toks v - 1, by omega⟩
    rw [hk]; unfold DescN
    exact Or.inr ⟨u, hu, hg, hbo, DescN.mono (by omega) ih⟩

theorem desc_within_length {toks : List Tok} (hb : BLt toks) {gid v : Nat} {t : Tok} (hd : Desc toks gid v t) :
    DescN toks.length toks gid v t :=
  DescN.mono (above_le toks v) (desc_bounded hb hd)

/-- forward simulation between token lists: every token is still there with its identity -/
def Fwd (a b : List Tok) : Prop := ∀ x ∈ a, ∃ y ∈ b, Keeps x y

theorem Fwd.refl (a : List Tok) : Fwd a a := fun x hx => ⟨x, hx, Keeps.refl x⟩
theorem Fwd.trans {a b c : List Tok} (h1 : Fwd a b) (h2 : Fwd b c) : Fwd a c := by
  intro x hx
  obtain ⟨y, hy, k1⟩ := h1 x hx
  obtain ⟨z, hz, k2⟩ := h2 y hy
  exact ⟨z, hz, k1.trans k2⟩

theorem fwd_revokeBasedOn (fuel : Nat) (toks : List Tok) (gid v : Nat) : Fwd toks (revokeBasedOn fuel toks gid v) :=
  fun x hx => revokeBasedOn_keeps fuel toks gid v x hx

theorem fwd_foldl (fuel gid : Nat) (ks : List Nat) (acc : List Tok) :
    Fwd acc (ks.foldl (fun acc k => revokeBasedOn fuel acc gid k) acc) := by
  induction ks generalizing acc with
  | nil => exact Fwd.refl _
  | cons k ks ih => simp only [List.foldl_cons]; exact (fwd_revokeBasedOn fuel acc gid k).trans (ih _)

/-- the derivation structure is carried along a forward simulation -/
theorem DescN.transport {a b : List Tok} (hf : Fwd a b) {n gid v : Nat} {t : Tok} (hd : DescN n a gid v t) :
    ∃ t' ∈ b, Keeps t t' ∧ DescN n b gid v t' := by
  induction n generalizing v with
  | zero => exact absurd hd (by simp [DescN])
  | succ n ih =>
    unfold DescN at hd
    rcases hd with ⟨ht, hg, hb⟩ | ⟨u, hu, hg, hb, hr⟩
    · obtain ⟨t', ht', k⟩ := hf t ht
      refine ⟨t', ht', k, ?_⟩
      unfold DescN
      exact Or.inl ⟨ht', by rw [k.gid]; exact hg, by rw [k.basedOn]; exact hb⟩
    · obtain ⟨u', hu', ku⟩ := hf u hu
      obtain ⟨t', ht', kt, hr'⟩ := ih hr
      refine ⟨t', ht', kt, ?_⟩
      unfold DescN
      exact Or.inr ⟨u', hu', by rw [ku.gid]; exact hg, by rw [ku.basedOn]; exact hb, by rw [ku.id]; exact hr'⟩

/-- the recursion marks every token at most `fuel` links below `v` -/
theorem revokeBasedOn_reaches (fuel : Nat) (toks : List Tok) (gid v : Nat) (t : Tok)
    (hd : DescN fuel toks gid v t) :
    ∃ y ∈ revokeBasedOn fuel toks gid v, Keeps t y ∧ y.revoked = true := by
  induction fuel generalizing toks v t with
  | zero => exact absurd hd (by simp [DescN])
  | succ f ih =>
    unfold revokeBasedOn
    simp only
    -- the first level
    have hf1 : Fwd toks (toks.map (fun t => if t.gid = gid ∧ t.basedOn = some v then { t with revoked := true } else t)) :=
      fun x hx => ⟨_, List.mem_map.mpr ⟨x, hx, rfl⟩, keeps_ite_revoke x _⟩
    have hkids : ∀ u ∈ toks, u.gid = gid → u.basedOn = some v →
        u.id ∈ (toks.filter (fun t => decide (t.gid = gid ∧ t.basedOn = some v))).map (·.id) := by
      intro u hu hg hb
      exact List.mem_map.mpr ⟨u, List.mem_filter.mpr ⟨hu, by simp [hg, hb]⟩, rfl⟩
    unfold DescN at hd
    rcases hd with ⟨ht, hg, hb⟩ | ⟨u, hu, hg, hb, hr⟩
    · -- a direct child: marked at the first level, marks are never taken back
      have hm : ({ t with revoked := true } : Tok) ∈
          toks.map (fun t => if t.gid = gid ∧ t.basedOn = some v then { t with revoked := true } else t) :=
        List.mem_map.mpr ⟨t, ht, by simp [hg, hb]⟩
      obtain ⟨y, hy, k⟩ := fwd_foldl f gid _ _ _ hm
      exact ⟨y, hy, ⟨k.id, k.gid, k.cls, k.basedOn, k.maxUsage, k.exp, k.scope, fun _ => k.revoked rfl, k.used⟩, k.revoked rfl⟩
    · -- below the child `u`: the recursive call for `u` reaches it
      have hk := hkids u hu hg hb
      obtain ⟨pre, post, hsplit⟩ := List.append_of_mem hk
      rw [hsplit, List.foldl_append, List.foldl_cons]
      have hfa := hf1.trans (fwd_foldl f gid pre _)
      obtain ⟨t1, _, k1, hd1⟩ := DescN.transport hfa hr
      obtain ⟨y, hy, k2, hrev⟩ := ih _ u.id t1 hd1
      obtain ⟨z, hz, k3⟩ := fwd_foldl f gid post _ y hy
      exact ⟨z, hz, (k1.trans k2).trans k3, k3.revoked hrev⟩

end Idpy.Provider
