/-
Lemmas about the handler layer (Model/Handler.lean); the property theorems are in Props/C04.lean.
-/
import IdpyVerif.Model.Handler
import IdpyVerif.Proofs.LV
namespace Idpy.Handler
open Idpy Idpy.LV

theorem info_mint (h : H) (rnd sid exp : Str) (hn : h.name ≠ []) (hl : LastOk [rnd, h.name, sid, exp]) :
    info h (mint h rnd sid exp) = .ok { id := rnd, cls := h.name, sid := some sid, exp := some exp } := by
  have ht : tagOf h = h.name := by
    unfold tagOf; cases hh : h.name with
    | nil => exact absurd hh hn
    | cons a as => simp
  unfold info mint
  simp only [ht, ne_eq, not_true_eq_false, ↓reduceIte, lv_pack_unpack _ hl]
  simp

theorem info_ok_inv (h : H) (t : Tok) (i : Info) (hi : info h t = .ok i) :
    t.key = h.key ∧ ∃ id cls rest, unpack t.plain = some (id :: cls :: rest) ∧ (cls = h.name ∨ cls = h.alt) ∧
      i = { id := id, cls := h.name, sid := rest.head?, exp := (rest.drop 1).head? } := by
  unfold info at hi
  split at hi
  · cases hi
  · rename_i hk
    refine ⟨by simpa using hk, ?_⟩
    split at hi
    · cases hi
    · rename_i id cls rest hu
      split at hi
      · rename_i hc
        injection hi with hi
        exact ⟨id, cls, rest, hu, hc, hi.symm⟩
      · cases hi
    · cases hi

/-- a handler whose key differs, or whose two tags both differ from the token's tag, steps aside -/
theorem info_foreign (h h' : H) (rnd sid exp : Str) (hl : LastOk [rnd, tagOf h, sid, exp])
    (hsep : h'.key ≠ h.key ∨ (tagOf h ≠ h'.name ∧ tagOf h ≠ h'.alt)) :
    info h' (mint h rnd sid exp) = .skip := by
  unfold info mint
  by_cases hk : h.key = h'.key
  · have hs : tagOf h ≠ h'.name ∧ tagOf h ≠ h'.alt := by
      rcases hsep with hne | hs
      · exact absurd hk.symm hne
      · exact hs
    simp only [hk, ne_eq, not_true_eq_false, ↓reduceIte, lv_pack_unpack _ hl]
    simp [hs.1, hs.2]
  · simp [hk]

/-- handler `h` is told apart from every other handler of the list -/
def Separated (h : H) (hs : List H) : Prop :=
  ∀ h' ∈ hs, h' = h ∨ h'.key ≠ h.key ∨ (h.name ≠ h'.name ∧ h.name ≠ h'.alt)

theorem getHandler_own (hs : List H) (h : H) (rnd sid exp : Str) (hn : h.name ≠ [])
    (hl : LastOk [rnd, h.name, sid, exp]) (hmem : h ∈ hs) (hsep : Separated h hs) :
    getHandler hs (mint h rnd sid exp) = some (some (h, { id := rnd, cls := h.name, sid := some sid, exp := some exp })) := by
  have ht : tagOf h = h.name := by
    unfold tagOf; cases hh : h.name with
    | nil => exact absurd hh hn
    | cons a as => simp
  induction hs with
  | nil => cases hmem
  | cons h' hs ih =>
    unfold getHandler
    by_cases he : h' = h
    · subst he; rw [info_mint _ _ _ _ hn hl]
    · have hs' : h'.key ≠ h.key ∨ (tagOf h ≠ h'.name ∧ tagOf h ≠ h'.alt) := by
        rcases hsep h' (by simp) with h1 | h2 | h3
        · exact absurd h1 he
        · exact Or.inl h2
        · exact Or.inr (by rw [ht]; exact h3)
      rw [info_foreign h h' rnd sid exp (by rw [ht]; exact hl) hs']
      have hm : h ∈ hs := by
        cases hmem with
        | head => exact absurd rfl he
        | tail _ hm => exact hm
      exact ih hm (fun x hx => hsep x (List.mem_cons_of_mem _ hx))

end Idpy.Handler
