/-
Structural facts about the literal session-database model (Model/SessionDB.lean): every operation
is built from `put` and `del`, which keep the keys of the flat dictionary unique; creating a session
touches the three keys of its own branch only.
-/
import IdpyVerif.Model.SessionDB
namespace Idpy.SessionDB

def keys (db : DB) : List Str := db.map (·.1)

/-- the keys of the flat dictionary are pairwise different -/
def Uniq (db : DB) : Prop := (keys db).Nodup

theorem keys_put_mem (db : DB) (k : Str) (n : Node) : ∀ x, x ∈ keys (put db k n) ↔ x ∈ keys db ∨ x = k := by
  induction db with
  | nil => intro x; simp [put, keys]
  | cons e rest ih =>
    intro x
    obtain ⟨k', n'⟩ := e
    simp only [put]
    split
    · rename_i h; subst h
      simp only [keys, List.map_cons, List.mem_cons]
      constructor
      · intro hx; exact Or.inl hx
      · intro hx
        rcases hx with hx | hx
        · exact hx
        · exact Or.inl hx
    · have := ih x
      simp only [keys, List.map_cons, List.mem_cons] at this ⊢
      rw [this]
      constructor
      · intro hx
        rcases hx with hx | hx | hx
        · exact Or.inl (Or.inl hx)
        · exact Or.inl (Or.inr hx)
        · exact Or.inr hx
      · intro hx
        rcases hx with (hx | hx) | hx
        · exact Or.inl hx
        · exact Or.inr (Or.inl hx)
        · exact Or.inr (Or.inr hx)

theorem uniq_put (db : DB) (k : Str) (n : Node) (h : Uniq db) : Uniq (put db k n) := by
  induction db with
  | nil => simp [put, Uniq, keys]
  | cons e rest ih =>
    obtain ⟨k', n'⟩ := e
    simp only [Uniq, keys, List.map_cons, List.nodup_cons] at h
    simp only [put]
    split
    · rename_i hk; subst hk
      simpa [Uniq, keys] using h
    · rename_i hk
      simp only [Uniq, keys, List.map_cons, List.nodup_cons]
      refine ⟨?_, ih h.2⟩
      intro hm
      have := (keys_put_mem rest k n k').mp hm
      rcases this with h1 | h1
      · exact h.1 h1
      · exact hk h1

theorem uniq_del (db : DB) (k : Str) (h : Uniq db) : Uniq (del db k) := by
  unfold Uniq keys del at *
  exact List.Nodup.sublist (List.Sublist.map _ List.filter_sublist) h

theorem lookup_put_ne (db : DB) (k k' : Str) (n : Node) (h : k' ≠ k) : lookup (put db k n) k' = lookup db k' := by
  induction db with
  | nil => simp [put, lookup, List.find?, Ne.symm h]
  | cons e rest ih =>
    obtain ⟨k0, n0⟩ := e
    simp only [put]
    split
    · rename_i hk; subst hk
      simp [lookup, List.find?, Ne.symm h]
    · simp only [lookup, List.find?] at ih ⊢
      split
      · rfl
      · exact ih

theorem lookup_del_ne (db : DB) (k k' : Str) (h : k' ≠ k) : lookup (del db k) k' = lookup db k' := by
  induction db with
  | nil => rfl
  | cons e rest ih =>
    obtain ⟨k0, n0⟩ := e
    simp only [del, List.filter] at ih ⊢
    by_cases hk : k0 = k
    · subst hk
      simp only [ne_eq, not_true_eq_false, decide_false]
      rw [ih]
      simp [lookup, List.find?, Ne.symm h]
    · simp only [ne_eq, hk, not_false_eq_true, decide_true]
      simp only [lookup, List.find?] at ih ⊢
      split
      · rfl
      · exact ih

/-! ### every operation keeps the keys unique -/

theorem uniq_setLoop (leaf : Node) (full : List Str) (fuel i : Nat) (sup : Option Str) (db : DB) (h : Uniq db) :
    Uniq (setLoop leaf full fuel i sup db) := by
  induction fuel generalizing i sup db with
  | zero => simpa [setLoop] using h
  | succ f ih =>
    unfold setLoop
    split
    · exact h
    · simp only
      apply ih
      apply uniq_put
      split
      · exact h
      · split
        · exact h
        · split
          · exact uniq_put _ _ _ h
          · exact h

theorem uniq_set (db : DB) (path : List Str) (leaf : Node) (h : Uniq db) : Uniq (set db path leaf) :=
  uniq_setLoop leaf path path.length 0 none db h

theorem uniq_setupBranch (path : List Str) (fuel i : Nat) (db : DB) (h : Uniq db) : Uniq (setupBranch db path fuel i) := by
  induction fuel generalizing i db with
  | zero => simpa [setupBranch] using h
  | succ f ih =>
    unfold setupBranch
    split
    · exact h
    · simp only
      apply ih
      split
      · exact h
      · exact uniq_set _ _ _ h

theorem uniq_addGrant (db : DB) (u c g : Str) (k : Kind) (h : Uniq db) : Uniq (addGrant db u c g k) :=
  uniq_set _ _ _ (uniq_setupBranch _ _ _ _ h)

theorem uniq_fold {α : Type} (f : DB → α → Option DB) (hf : ∀ d a d', Uniq d → f d a = some d' → Uniq d')
    (l : List α) (acc : Option DB) (hacc : ∀ d, acc = some d → Uniq d) :
    ∀ d', l.foldl (fun acc s => match acc with | none => none | some d => f d s) acc = some d' → Uniq d' := by
  induction l generalizing acc with
  | nil => intro d' hd; exact hacc d' (by simpa using hd)
  | cons a as ih =>
    intro d' hd
    simp only [List.foldl_cons] at hd
    refine ih _ ?_ d' hd
    intro d hd2
    cases acc with
    | none => simp at hd2
    | some d0 => exact hf d0 a d (hacc d0 rfl) hd2

theorem uniq_deleteSubTree (fuel : Nat) (db : DB) (key : Str) (db' : DB) (h : Uniq db)
    (hd : deleteSubTree fuel db key = some db') : Uniq db' := by
  induction fuel generalizing db key db' with
  | zero => simp [deleteSubTree] at hd
  | succ f ih =>
    unfold deleteSubTree at hd
    split at hd
    · simp at hd
    · rename_i n _
      simp only [Option.map_eq_some_iff] at hd
      obtain ⟨d, hd1, rfl⟩ := hd
      apply uniq_del
      split at hd1
      · exact uniq_fold (fun d s => deleteSubTree f d s) (fun d a d' hu hh => ih d a d' hu hh) n.subs (some db)
          (fun d hd => by cases hd; exact h) d hd1
      · cases hd1; exact h

theorem uniq_revokeTree (fuel : Nat) (db : DB) (key : Str) (db' : DB) (h : Uniq db)
    (hd : revokeTree fuel db key = some db') : Uniq db' := by
  induction fuel generalizing db key db' with
  | zero => simp [revokeTree] at hd
  | succ f ih =>
    unfold revokeTree at hd
    split at hd
    · simp at hd
    · rename_i n _
      simp only at hd
      split at hd
      · exact uniq_fold (fun d s => revokeTree f d s) (fun d a d' hu hh => ih d a d' hu hh) n.subs _
          (fun d hd => by cases hd; exact uniq_put _ _ _ h) db' hd
      · cases hd; exact uniq_put _ _ _ h

theorem uniq_deleteLoop (path : List Str) (fuel i : Nat) (sub : Option Str) (db db' : DB) (h : Uniq db)
    (hd : deleteLoop path fuel i sub db = some db') : Uniq db' := by
  induction fuel generalizing i sub db db' with
  | zero => simp [deleteLoop] at hd; subst hd; exact h
  | succ f ih =>
    unfold deleteLoop at hd
    simp only at hd
    split at hd
    · cases hd; exact h
    · split at hd
      · exact ih _ _ _ _ h hd
      · rename_i node _
        split at hd
        · split at hd
          · simp at hd
          · split at hd
            · split at hd
              · exact ih _ _ _ _ (uniq_del _ _ h) hd
              · cases hd; exact uniq_put _ _ _ h
            · cases hd; exact h
        · split at hd
          · simp at hd
          · rename_i d hr
            refine ih _ _ _ _ (uniq_del _ _ ?_) hd
            split at hr
            · exact uniq_fold (fun d s => deleteSubTree (db.length + 1) d s) (fun d a d' hu hh => uniq_deleteSubTree _ d a d' hu hh)
                node.subs (some db) (fun d hd => by cases hd; exact h) d hr
            · cases hr; exact h

theorem uniq_delete (db : DB) (path : List Str) (db' : DB) (h : Uniq db) (hd : delete db path = some db') : Uniq db' := by
  unfold delete at hd
  split at hd
  · simp at hd
  · split at hd
    · cases hd; exact h
    · split at hd
      · exact uniq_deleteSubTree _ _ _ _ h hd
      · exact uniq_deleteLoop _ _ _ _ _ _ h hd

/-- every API step keeps the keys unique -/
theorem uniq_step (db : DB) (op : Op) (db' : DB) (h : Uniq db) (hs : step db op = some db') : Uniq db' := by
  cases op with
  | create u c g => simp only [step, Option.some.injEq] at hs; subst hs; exact uniq_addGrant _ _ _ _ _ h
  | exchange u c g => simp only [step, Option.some.injEq] at hs; subst hs; exact uniq_addGrant _ _ _ _ _ h
  | revoke path level => exact uniq_revokeTree _ _ _ _ h hs
  | remove path => exact uniq_delete _ _ _ h hs
  | delete path => exact uniq_delete _ _ _ h hs
  | deleteSub key => exact uniq_deleteSubTree _ _ _ _ h hs
  | flush => simp only [step, Option.some.injEq] at hs; subst hs; simp [Uniq, keys]

/-! ### creating a session touches the keys of its own branch only -/

theorem lookup_setLoop_other (leaf : Node) (full : List Str) (x : Str) (hx : ∀ m, x ≠ joinKey (full.take m))
    (fuel i : Nat) (sup : Option Str) (db : DB) (hsup : ∀ sk, sup = some sk → x ≠ sk) :
    lookup (setLoop leaf full fuel i sup db) x = lookup db x := by
  induction fuel generalizing i sup db with
  | zero => simp [setLoop]
  | succ f ih =>
    unfold setLoop
    split
    · rfl
    · simp only
      rw [ih (i+1) (some (joinKey (full.take (i+1)))) _ (fun sk hsk => by cases hsk; exact hx (i+1))]
      rw [lookup_put_ne _ _ _ _ (hx (i+1))]
      split
      · rfl
      · rename_i sk
        split
        · rfl
        · split
          · exact lookup_put_ne _ _ _ _ (hsup sk rfl)
          · rfl

theorem lookup_set_other (db : DB) (path : List Str) (leaf : Node) (x : Str) (hx : ∀ m, x ≠ joinKey (path.take m)) :
    lookup (set db path leaf) x = lookup db x :=
  lookup_setLoop_other leaf path x hx _ _ none db (fun _ h => by cases h)

theorem lookup_setupBranch_other (path : List Str) (x : Str) (hx : ∀ m, x ≠ joinKey (path.take m))
    (fuel i : Nat) (db : DB) : lookup (setupBranch db path fuel i) x = lookup db x := by
  induction fuel generalizing i db with
  | zero => simp [setupBranch]
  | succ f ih =>
    unfold setupBranch
    split
    · rfl
    · simp only
      rw [ih]
      split
      · rfl
      · apply lookup_set_other
        intro m
        rw [List.take_take]
        exact hx _

/-- **operations on one branch leave all other branches unchanged (creation).** Whatever is stored
    under a key that is not the key of a prefix of the new session's path (user, user;;client,
    user;;client;;grant) is exactly what it was -/
theorem create_is_local (db : DB) (u c g : Str) (k : Kind) (x : Str)
    (hx : ∀ m, x ≠ joinKey ([u, c, g].take m)) : lookup (addGrant db u c g k) x = lookup db x := by
  unfold addGrant
  simp only
  rw [lookup_set_other _ _ _ _ (by simpa using hx)]
  apply lookup_setupBranch_other
  intro m
  have := hx (min m 2)
  have e : [u, c].take m = [u, c, g].take (min m 2) := by
    match m with
    | 0 => rfl
    | 1 => rfl
    | 2 => rfl
    | (n+3) => simp
  rw [e]; exact this

theorem lookup_put_eq (db : DB) (k : Str) (n : Node) : lookup (put db k n) k = some n := by
  induction db with
  | nil => simp [put, lookup, List.find?]
  | cons e rest ih =>
    obtain ⟨k0, n0⟩ := e
    simp only [put]
    split
    · simp [lookup, List.find?]
    · rename_i hk
      simp only [lookup, List.find?] at ih ⊢
      simp only [hk, decide_false]
      exact ih

/-- `Database.set` stores the leaf under the key of the full path -/
theorem lookup_setLoop_leaf (leaf : Node) (full : List Str) (fuel i : Nat) (sup : Option Str) (db : DB)
    (hi : i < full.length) (hf : full.length - i ≤ fuel) :
    lookup (setLoop leaf full fuel i sup db) (joinKey full) = some leaf := by
  induction fuel generalizing i sup db with
  | zero => omega
  | succ f ih =>
    unfold setLoop
    have hnot : ¬ (i ≥ full.length) := by omega
    simp only [hnot, ↓reduceIte]
    by_cases hl : i + 1 = full.length
    · -- the leaf itself: the next round stops
      have hstop : ∀ (sup' : Option Str) (d : DB), setLoop leaf full f (i+1) sup' d = d := by
        intro sup' d
        cases f with
        | zero => rfl
        | succ f' => unfold setLoop; simp [hl]
      rw [hstop]
      have hk : joinKey (full.take (i+1)) = joinKey full := by rw [hl, List.take_length]
      rw [hk]
      rw [lookup_put_eq]
      split <;> simp [hl]
    · exact ih (i+1) _ _ (by omega) (by omega)

/-- a created session's grant is stored under user;;client;;grant, as created -/
theorem create_stores (db : DB) (u c g : Str) (k : Kind) :
    lookup (addGrant db u c g k) (joinKey [u, c, g]) = some { kind := k, id := g, subs := [], revoked := false } := by
  unfold addGrant set
  exact lookup_setLoop_leaf _ _ _ _ _ _ (by simp) (by simp)

/-- … and every step of every history keeps the flat dictionary's keys unique: one node per path -/
def runOps (db : DB) : List Op → DB
  | [] => db
  | op :: ops => runOps ((step db op).getD db) ops

theorem uniq_reachable (ops : List Op) : Uniq (runOps [] ops) := by
  have : ∀ db, Uniq db → Uniq (runOps db ops) := by
    induction ops with
    | nil => intro db h; exact h
    | cons op ops ih =>
      intro db h
      simp only [runOps]
      apply ih
      cases hs : step db op with
      | none => simpa using h
      | some d => simpa using uniq_step db op d h hs
  exact this [] (by simp [Uniq, keys])

end Idpy.SessionDB
