/-
Structural facts about the literal session-database model (Model/SessionDB.lean): every operation
is built from `put` and `del`, which keep the keys of the flat dictionary unique; creating a session
touches the three keys of its own branch only.
-/
import IdpyVerif.Model.SessionDB
namespace Idpy.SessionDB

def keys (db : DB) : List Str := db.map (·.1)

/-- the keys of the flat dictionary are pairwise different -/
def Uniq (db : DB) : Prop := (keys db).Nodup

theorem keys_put_mem (db : DB) (k : Str) (n : Node) : ∀ x, x ∈ keys (put db k n) ↔ x ∈ keys db ∨ x = k := by
  induction db with
  | nil => intro x; simp [put, keys]
  | cons e rest ih =>
    intro x
    obtain ⟨k', n'⟩ := e
    simp only [put]
    split
    · rename_i h; subst h
      simp only [keys, List.map_cons, List.mem_cons]
      constructor
      · intro hx; exact Or.inl hx
      · intro hx
        rcases hx with hx | hx
        · exact hx
        · exact Or.inl hx
    · have := ih x
      simp only [keys, List.map_cons, List.mem_cons] at this ⊢
      rw [this]
      constructor
      · intro hx
        rcases hx with hx | hx | hx
        · exact Or.inl (Or.inl hx)
        · exact Or.inl (Or.inr hx)
        · exact Or.inr hx
      · intro hx
        rcases hx with (hx | hx) | hx
        · exact Or.inl hx
        · exact Or.inr (Or.inl hx)
        · exact Or.inr (Or.inr hx)

theorem uniq_put (db : DB) (k : Str) (n : Node) (h : Uniq db) : Uniq (put db k n) := by
  induction db with
  | nil => simp [put, Uniq, keys]
  | cons e rest ih =>
    obtain ⟨k', n'⟩ := e
    simp only [Uniq, keys, List.map_cons, List.nodup_cons] at h
    simp only [put]
    split
    · rename_i hk; subst hk
      simpa [Uniq, keys] using h
    · rename_i hk
      simp only [Uniq, keys, List.map_cons, List.nodup_cons]
      refine ⟨?_, ih h.2⟩
      intro hm
      have := (keys_put_mem rest k n k').mp hm
      rcases this with h1 | h1
      · exact h.1 h1
      · exact hk h1

theorem uniq_del (db : DB) (k : Str) (h : Uniq db) : Uniq (del db k) := by
  unfold Uniq keys del at *
  exact List.Nodup.sublist (List.Sublist.map _ List.filter_sublist) h

theorem lookup_put_ne (db : DB) (k k' : Str) (n : Node) (h : k' ≠ k) : lookup (put db k n) k' = lookup db k' := by
  induction db with
  | nil => simp [put, lookup, List.find?, Ne.symm h]
  | cons e rest ih =>
    obtain ⟨k0, n0⟩ := e
    simp only [put]
    split
    · rename_i hk; subst hk
      simp [lookup, List.find?, Ne.symm h]
    · simp only [lookup, List.find?] at ih ⊢
      split
      · rfl
      · exact ih

theorem lookup_del_ne (db : DB) (k k' : Str) (h : k' ≠ k) : lookup (del db k) k' = lookup db k' := by
  induction db with
  | nil => rfl
  | cons e rest ih =>
    obtain ⟨k0, n0⟩ := e
    simp only [del, List.filter] at ih ⊢
    by_cases hk : k0 = k
    · subst hk
      simp only [ne_eq, not_true_eq_false, decide_false]
      rw [ih]
      simp [lookup, List.find?, Ne.symm h]
    · simp only [ne_eq, hk, not_false_eq_true, decide_true]
      simp only [lookup, List.find?] at ih ⊢
      split
      · rfl
      · exact ih

/-! ### every operation keeps the keys unique -/

theorem uniq_setLoop (leaf : Node) (full : List Str) (fuel i : Nat) (sup : Option Str) (db : DB) (h : Uniq db) :
    Uniq (setLoop leaf full fuel i sup db) := by
  induction fuel generalizing i sup db with
  | zero => simpa [setLoop] using h
  | succ f ih =>
    unfold setLoop
    split
    · exact h
    · simp only
      apply ih
      apply uniq_put
      split
      · exact h
      · split
        · exact h
        · split
          · exact uniq_put _ _ _ h
          · exact h

theorem uniq_set (db : DB) (path : List Str) (leaf : Node) (h : Uniq db) : Uniq (set db path leaf) :=
  uniq_setLoop leaf path path.length 0 none db h

theorem uniq_setupBranch (path : List Str) (fuel i : Nat) (db : DB) (h : Uniq db) : Uniq (setupBranch db path fuel i) := by
  induction fuel generalizing i db with
  | zero => simpa [setupBranch] using h
  | succ f ih =>
    unfold setupBranch
    split
    · exact h
    · simp only
      apply ih
      split
      · exact h
      · exact uniq_set _ _ _ h

theorem uniq_addGrant (db : DB) (u c g : Str) (k : Kind) (h : Uniq db) : Uniq (addGrant db u c g k) :=
  uniq_set _ _ _ (uniq_setupBranch _ _ _ _ h)

theorem uniq_fold {α : Type} (f : DB → α → Option DB) (hf : ∀ d a d', Uniq d → f d a = some d' → Uniq d')
    (l : List α) (acc : Option DB) (hacc : ∀ d, acc = some d → Uniq d) :
    ∀ d', l.foldl (fun acc s => match acc with | none => none | some d => f d s) acc = some d' → Uniq d' := by
  induction l generalizing acc with
  | nil => intro d' hd; exact hacc d' (by simpa using hd)
  | cons a as ih =>
    intro d' hd
    simp only [List.foldl_cons] at hd
    refine ih _ ?_ d' hd
    intro d hd2
    cases acc with
    | none => simp at hd2
    | some d0 => exact hf d0 a d (hacc d0 rfl) hd2

theorem uniq_deleteSubTree (fuel : Nat) (db : DB) (key : Str) (db' : DB) (h : Uniq db)
    (hd : deleteSubTree fuel db key = some db') : Uniq db' := by
  induction fuel generalizing db key db' with
  | zero => simp [deleteSubTree] at hd
  | succ f ih =>
    unfold deleteSubTree at hd
    split at hd
    · simp at hd
    · rename_i n _
      simp only [Option.map_eq_some_iff] at hd
      obtain ⟨d, hd1, rfl⟩ := hd
      apply uniq_del
      split at hd1
      · exact uniq_fold (fun d s => deleteSubTree f d s) (fun d a d' hu hh => ih d a d' hu hh) n.subs (some db)
          (fun d hd => by cases hd; exact h) d hd1
      · cases hd1; exact h

theorem uniq_revokeTree (fuel : Nat) (db : DB) (key : Str) (db' : DB) (h : Uniq db)
    (hd : revokeTree fuel db key = some db') : Uniq db' := by
  induction fuel generalizing db key db' with
  | zero => simp [revokeTree] at hd
  | succ f ih =>
    unfold revokeTree at hd
    split at hd
    · simp at hd
    · rename_i n _
      simp only at hd
      split at hd
      · exact uniq_fold (fun d s => revokeTree f d s) (fun d a d' hu hh => ih d a d' hu hh) n.subs _
          (fun d hd => by cases hd; exact uniq_put _ _ _ h) db' hd
      · cases hd; exact uniq_put _ _ _ h

theorem uniq_deleteLoop (path : List Str) (fuel i : Nat) (sub : Option Str) (db db' : DB) (h : Uniq db)
    (hd : deleteLoop path fuel i sub db = some db') : Uniq db' := by
  induction fuel generalizing i sub db db' with
  | zero => simp [deleteLoop] at hd; subst hd; exact h
  | succ f ih =>
    unfold deleteLoop at hd
    simp only at hd
    split at hd
    · cases hd; exact h
    · split at hd
      · exact ih _ _ _ _ h hd
      · rename_i node _
        split at hd
        · split at hd
          · simp at hd
          · split at hd
            · split at hd
              · exact ih _ _ _ _ (uniq_del _ _ h) hd
              · cases hd; exact uniq_put _ _ _ h
            · cases hd; exact h
        · split at hd
          · simp at hd
          · rename_i d hr
            refine ih _ _ _ _ (uniq_del _ _ ?_) hd
            split at hr
            · exact uniq_fold (fun d s => deleteSubTree (db.length + 1) d s) (fun d a d' hu hh => uniq_deleteSubTree _ d a d' hu hh)
                node.subs (some db) (fun d hd => by cases hd; exact h) d hr
            · cases hr; exact h

theorem uniq_delete (db : DB) (path : List Str) (db' : DB) (h : Uniq db) (hd : delete db path = some db') : Uniq db' := by
  unfold delete at hd
  split at hd
  · simp at hd
  · split at hd
    · cases hd; exact h
    · split at hd
      · exact uniq_deleteSubTree _ _ _ _ h hd
      · exact uniq_deleteLoop _ _ _ _ _ _ h hd

/-- every API step keeps the keys unique -/
theorem uniq_step (db : DB) (op : Op) (db' : DB) (h : Uniq db) (hs : step db op = some db') : Uniq db' := by
  cases op with
  | create u c g => simp only [step, Option.some.injEq] at hs; subst hs; exact uniq_addGrant _ _ _ _ _ h
  | exchange u c g => simp only [step, Option.some.injEq] at hs; subst hs; exact uniq_addGrant _ _ _ _ _ h
  | revoke path level => exact uniq_revokeTree _ _ _ _ h hs
  | remove path => exact uniq_delete _ _ _ h hs
  | delete path => exact uniq_delete _ _ _ h hs
  | deleteSub key => exact uniq_deleteSubTree _ _ _ _ h hs
  | flush => simp only [step, Option.some.injEq] at hs; subst hs; simp [Uniq, keys]

/-! ### creating a session touches the keys of its own branch only -/

theorem lookup_setLoop_other (leaf : Node) (full : List Str) (x : Str) (hx : ∀ m, x ≠ joinKey (full.take m))
    (fuel i : Nat) (sup : Option Str) (db : DB) (hsup : ∀ sk, sup = some sk → x ≠ sk) :
    lookup (setLoop leaf full fuel i sup db) x = lookup db x := by
  induction fuel generalizing i sup db with
  | zero => simp [setLoop]
  | succ f ih =>
    unfold setLoop
    split
    · rfl
    · simp only
      rw [ih (i+1) (some (joinKey (full.take (i+1)))) _ (fun sk hsk => by cases hsk; exact hx (i+1))]
      rw [lookup_put_ne _ _ _ _ (hx (i+1))]
      split
      · rfl
      · rename_i sk
        split
        · rfl
        · split
          · exact lookup_put_ne _ _ _ _ (hsup sk rfl)
          · rfl

theorem lookup_set_other (db : DB) (path : List Str) (leaf : Node) (x : Str) (hx : ∀ m, x ≠ joinKey (path.take m)) :
    lookup (set db path leaf) x = lookup db x :=
  lookup_setLoop_other leaf path x hx _ _ none db (fun _ h => by cases h)

theorem lookup_setupBranch_other (path : List Str) (x : Str) (hx : ∀ m, x ≠ joinKey (path.take m))
    (fuel i : Nat) (db : DB) : lookup (setupBranch db path fuel i) x = lookup db x := by
  induction fuel generalizing i db with
  | zero => simp [setupBranch]
  | succ f ih =>
    unfold setupBranch
    split
    · rfl
    · simp only
      rw [ih]
      split
      · rfl
      · apply lookup_set_other
        intro m
        rw [List.take_take]
        exact hx _

/-- **operations on one branch leave all other branches unchanged (creation).** Whatever is stored
    under a key that is not the key of a prefix of the new session's path (user, user;;client,
    user;;client;;grant) is exactly what it was -/
theorem create_is_local (db : DB) (u c g : Str) (k : Kind) (x : Str)
    (hx : ∀ m, x ≠ joinKey ([u, c, g].take m)) : lookup (addGrant db u c g k) x = lookup db x := by
  unfold addGrant
  simp only
  rw [lookup_set_other _ _ _ _ (by simpa using hx)]
  apply lookup_setupBranch_other
  intro m
  have := hx (min m 2)
  have e : [u, c].take m = [u, c, g].take (min m 2) := by
    match m with
    | 0 => rfl
    | 1 => rfl
    | 2 => rfl
    | (n+3) => simp
  rw [e]; exact this

theorem lookup_put_eq (db : DB) (k : Str) (n : Node) : lookup (put db k n) k = some n := by
  induction db with
  | nil => simp [put, lookup, List.find?]
  | cons e rest ih =>
    obtain ⟨k0, n0⟩ := e
    simp only [put]
    split
    · simp [lookup, List.find?]
    · rename_i hk
      simp only [lookup, List.find?] at ih ⊢
      simp only [hk, decide_false]
      exact ih

/-- `Database.set` stores the leaf under the key of the full path -/
theorem lookup_setLoop_leaf (leaf : Node) (full : List Str) (fuel i : Nat) (sup : Option Str) (db : DB)
    (hi : i < full.length) (hf : full.length - i ≤ fuel) :
    lookup (setLoop leaf full fuel i sup db) (joinKey full) = some leaf := by
  induction fuel generalizing i sup db with
  | zero => omega
  | succ f ih =>
    unfold setLoop
    have hnot : ¬ (i ≥ full.length) := by omega
    simp only [hnot, ↓reduceIte]
    by_cases hl : i + 1 = full.length
    · -- the leaf itself: the next round stops
      have hstop : ∀ (sup' : Option Str) (d : DB), setLoop leaf full f (i+1) sup' d = d := by
        intro sup' d
        cases f with
        | zero => rfl
        | succ f' => unfold setLoop; simp [hl]
      rw [hstop]
      have hk : joinKey (full.take (i+1)) = joinKey full := by rw [hl, List.take_length]
      rw [hk]
      rw [lookup_put_eq]
      split <;> simp [hl]
    · exact ih (i+1) _ _ (by omega) (by omega)

/-- a created session's grant is stored under user;;client;;grant, as created -/
theorem create_stores (db : DB) (u c g : Str) (k : Kind) :
    lookup (addGrant db u c g k) (joinKey [u, c, g]) = some { kind := k, id := g, subs := [], revoked := false } := by
  unfold addGrant set
  exact lookup_setLoop_leaf _ _ _ _ _ _ (by simp) (by simp)

/-! ### every created node is linked into its parent -/

/-- the key of the prefix of length `j+1` -/
def K (full : List Str) (j : Nat) : Str := joinKey (full.take (j+1))

/-- what one round of `setLoop` stores at the current key -/
def infoAt (leaf : Node) (full : List Str) (db : DB) (i : Nat) : Node :=
  match lookup db (K full i) with
  | none => if i + 1 = full.length then leaf else { kind := kindAt i, id := full.getD i [], subs := [], revoked := false }
  | some old => if i + 1 = full.length then leaf else old

/-- the linking of the current key into its superior -/
def linkSup (db : DB) (sup : Option Str) (key : Str) : DB :=
  match sup with
  | none => db
  | some sk => match lookup db sk with
    | none => db
    | some sn => if isInner sn ∧ ¬ (sn.subs.contains key) then put db sk { sn with subs := sn.subs ++ [key] } else db

theorem setLoop_succ (leaf : Node) (full : List Str) (f i : Nat) (sup : Option Str) (db : DB) :
    setLoop leaf full (f+1) i sup db =
      if i ≥ full.length then db
      else setLoop leaf full f (i+1) (some (K full i)) (put (linkSup db sup (K full i)) (K full i) (infoAt leaf full db i)) := by
  rfl

theorem lookup_linkSup_other (db : DB) (sup : Option Str) (key x : Str) (hsup : ∀ sk, sup = some sk → x ≠ sk) :
    lookup (linkSup db sup key) x = lookup db x := by
  unfold linkSup
  split
  · rfl
  · rename_i sk
    split
    · rfl
    · split
      · exact lookup_put_ne _ _ _ _ (hsup sk rfl)
      · rfl

theorem lookup_setLoop_before (leaf : Node) (full : List Str) (x : Str)
    (fuel i : Nat) (sup : Option Str) (db : DB) (hx : ∀ j, i ≤ j → x ≠ K full j) (hsup : ∀ sk, sup = some sk → x ≠ sk) :
    lookup (setLoop leaf full fuel i sup db) x = lookup db x := by
  induction fuel generalizing i sup db with
  | zero => simp [setLoop]
  | succ f ih =>
    rw [setLoop_succ]
    split
    · rfl
    · rw [ih (i+1) _ _ (fun j hj => hx j (by omega)) (fun sk hsk => by cases hsk; exact hx i (Nat.le_refl _))]
      rw [lookup_put_ne _ _ _ _ (hx i (Nat.le_refl _))]
      exact lookup_linkSup_other db sup _ x hsup

/-- linking step: an inner superior lists the child afterwards and is still inner -/
theorem linkSup_result (db : DB) (sk key : Str) (sn : Node) (hl : lookup db sk = some sn) (hin : isInner sn = true) :
    ∃ sn', lookup (linkSup db (some sk) key) sk = some sn' ∧ isInner sn' = true ∧ key ∈ sn'.subs := by
  simp only [linkSup, hl]
  by_cases hc : sn.subs.contains key = true
  · simp only [hc, not_true_eq_false, and_false, ↓reduceIte]
    exact ⟨sn, hl, hin, by simpa using hc⟩
  · simp only [hin, hc, not_false_eq_true, and_self, ↓reduceIte]
    exact ⟨_, lookup_put_eq _ _ _, by simpa [isInner] using hin, by simp⟩

theorem infoAt_inner (leaf : Node) (full : List Str) (db : DB) (i : Nat) (hlen : full.length ≤ 3) (hlt : i + 1 < full.length)
    (hinner : ∀ n, lookup db (K full i) = some n → isInner n = true) : isInner (infoAt leaf full db i) = true := by
  have hne : ¬ (i + 1 = full.length) := by omega
  unfold infoAt
  split
  · simp only [hne, ↓reduceIte]
    rcases Nat.lt_or_ge i 1 with h0 | h1
    · have : i = 0 := by omega
      simp [this, isInner, kindAt]
    · have : i = 1 := by omega
      simp [this, isInner, kindAt]
  · rename_i old hold
    simp only [hne, ↓reduceIte]
    exact hinner old hold

theorem setLoop_links (leaf : Node) (full : List Str) (hlen : full.length ≤ 3)
    (hd : ∀ j1 j2, j1 < full.length → j2 < full.length → j1 ≠ j2 → K full j1 ≠ K full j2)
    (fuel i : Nat) (sup : Option Str) (db : DB) (hi : i < full.length) (hf : full.length - i ≤ fuel)
    (hsup : ∀ sk, sup = some sk → 1 ≤ i ∧ sk = K full (i-1) ∧ ∃ sn, lookup db sk = some sn ∧ isInner sn = true)
    (hinner : ∀ j, i ≤ j → j + 1 < full.length → ∀ n, lookup db (K full j) = some n → isInner n = true) :
    ∀ j, (sup = none → i ≤ j) → i ≤ j + 1 → j + 1 < full.length →
      ∃ n, lookup (setLoop leaf full fuel i sup db) (K full j) = some n ∧ isInner n = true ∧ K full (j+1) ∈ n.subs := by
  induction fuel generalizing i sup db with
  | zero => omega
  | succ f ih =>
    intro j hj0 hj1 hj2
    rw [setLoop_succ]
    have hnot : ¬ (i ≥ full.length) := by omega
    simp only [hnot, ↓reduceIte]
    by_cases hji : j + 1 = i
    · -- the superior of this round: linked now, untouched afterwards
      have hsupsome : ∃ sk, sup = some sk := by
        cases sup with
        | none => have := hj0 rfl; omega
        | some sk => exact ⟨sk, rfl⟩
      obtain ⟨sk, rfl⟩ := hsupsome
      obtain ⟨h1, hsk, sn, hsn, hsin⟩ := hsup sk rfl
      have hjk : K full j = sk := by rw [hsk]; congr 1; omega
      have hne : K full j ≠ K full i := hd j i (by omega) hi (by omega)
      -- later rounds only touch keys K j' with j' ≥ i+1 … but only those inside the path matter
      have hafter : lookup (setLoop leaf full f (i+1) (some (K full i)) (put (linkSup db (some sk) (K full i)) (K full i) (infoAt leaf full db i))) (K full j)
          = lookup (put (linkSup db (some sk) (K full i)) (K full i) (infoAt leaf full db i)) (K full j) := by
        -- by induction on the remaining rounds, staying inside the path
        have gen : ∀ (f' i' : Nat) (sup' : Option Str) (d : DB), i ≤ i' → (∀ s', sup' = some s' → K full j ≠ s') →
            lookup (setLoop leaf full f' i' sup' d) (K full j) = lookup d (K full j) := by
          intro f'
          induction f' with
          | zero => intro i' sup' d _ _; simp [setLoop]
          | succ f'' ih' =>
            intro i' sup' d hii hs'
            rw [setLoop_succ]
            split
            · rfl
            · rename_i hin'
              have hi' : i' < full.length := by omega
              have hne' : K full j ≠ K full i' := hd j i' (by omega) hi' (by omega)
              rw [ih' (i'+1) _ _ (by omega) (fun s' hs => by cases hs; exact hne')]
              rw [lookup_put_ne _ _ _ _ hne']
              exact lookup_linkSup_other d sup' _ _ hs'
        exact gen f (i+1) _ _ (by omega) (fun s' hs => by cases hs; exact hne)
      rw [hafter, lookup_put_ne _ _ _ _ hne, hjk]
      obtain ⟨sn', h1', h2', h3'⟩ := linkSup_result db sk (K full i) sn hsn hsin
      refine ⟨sn', h1', h2', ?_⟩
      have : K full (j+1) = K full i := by congr 1
      rw [this]; exact h3'
    · -- a later round does it
      have hij : i ≤ j := by
        by_cases hs : sup = none
        · exact hj0 hs
        · omega
      have hlt : i + 1 < full.length := by omega
      have hinfo : isInner (infoAt leaf full db i) = true := infoAt_inner leaf full db i hlen hlt (hinner i (Nat.le_refl _) hlt)
      apply ih (i+1) (some (K full i)) _ (by omega) (by omega)
      · intro sk hsk
        cases hsk
        exact ⟨by omega, rfl, _, lookup_put_eq _ _ _, hinfo⟩
      · intro j' hj' hj2' n hn
        have hne' : K full j' ≠ K full i := hd j' i (by omega) hi (by omega)
        rw [lookup_put_ne _ _ _ _ hne'] at hn
        rw [lookup_linkSup_other db sup _ _ (by
          intro sk hsk
          obtain ⟨h1, hsk', _⟩ := hsup sk hsk
          rw [hsk']
          exact hd j' (i-1) (by omega) (by omega) (by omega))] at hn
        exact hinner j' (by omega) hj2' n hn
      · intro h; cases h
      · omega
      · exact hj2

/-! ### innerness of the nodes on a short path is kept by `set` with an inner leaf -/

theorem inner_linkSup (db : DB) (sup : Option Str) (key x : Str) (h : ∀ n, lookup db x = some n → isInner n = true) :
    ∀ n, lookup (linkSup db sup key) x = some n → isInner n = true := by
  unfold linkSup
  split
  · exact h
  · rename_i sk
    split
    · exact h
    · rename_i sn hsn
      split
      · rename_i hc
        intro n hn
        by_cases hx : x = sk
        · subst hx
          rw [lookup_put_eq] at hn
          cases hn
          have := h sn hsn
          simpa [isInner] using this
        · rw [lookup_put_ne _ _ _ _ hx] at hn
          exact h n hn
      · exact h

theorem inner_setLoop (leaf : Node) (hleaf : isInner leaf = true) (full : List Str) (hlen : full.length ≤ 2) (x : Str)
    (fuel i : Nat) (sup : Option Str) (db : DB) (h : ∀ n, lookup db x = some n → isInner n = true) :
    ∀ n, lookup (setLoop leaf full fuel i sup db) x = some n → isInner n = true := by
  induction fuel generalizing i sup db with
  | zero => simpa [setLoop] using h
  | succ f ih =>
    rw [setLoop_succ]
    split
    · exact h
    · rename_i hi
      apply ih
      intro n hn
      by_cases hx : x = K full i
      · subst hx
        rw [lookup_put_eq] at hn
        cases hn
        unfold infoAt
        split
        · split
          · exact hleaf
          · have : i ≤ 1 := by omega
            rcases Nat.lt_or_ge i 1 with h0 | h1
            · have : i = 0 := by omega
              simp [this, isInner, kindAt]
            · have : i = 1 := by omega
              simp [this, isInner, kindAt]
        · rename_i old hold
          split
          · exact hleaf
          · exact h old hold
      · rw [lookup_put_ne _ _ _ _ hx] at hn
        exact inner_linkSup db sup _ x h n hn

theorem inner_setupBranch (path : List Str) (hlen : path.length ≤ 2) (x : Str) (fuel i : Nat) (db : DB)
    (h : ∀ n, lookup db x = some n → isInner n = true) :
    ∀ n, lookup (setupBranch db path fuel i) x = some n → isInner n = true := by
  induction fuel generalizing i db with
  | zero => simpa [setupBranch] using h
  | succ f ih =>
    unfold setupBranch
    split
    · exact h
    · rename_i hi
      simp only
      apply ih
      split
      · exact h
      · unfold set
        apply inner_setLoop _ _ _ (by simp; omega) x _ _ _ _ h
        have : i ≤ 1 := by omega
        rcases Nat.lt_or_ge i 1 with h0 | h1
        · have : i = 0 := by omega
          simp [this, isInner, kindAt]
        · have : i = 1 := by omega
          simp [this, isInner, kindAt]

theorem join2_length_cons (a b : Str) (rest : List Str) :
    (joinKey (a :: b :: rest)).length = a.length + 2 + (joinKey (b :: rest)).length := by
  simp [joinKey, Split.join2]
  omega

/-- the three keys of a branch are different strings (each is strictly longer than the one before) -/
theorem branch_keys_distinct (u c g : Str) :
    ∀ j1 j2, j1 < [u, c, g].length → j2 < [u, c, g].length → j1 ≠ j2 → K [u, c, g] j1 ≠ K [u, c, g] j2 := by
  have l0 : (K [u, c, g] 0).length = u.length := by simp [K, joinKey, Split.join2]
  have l1 : (K [u, c, g] 1).length = u.length + 2 + c.length := by
    simp only [K, List.take_succ_cons, List.take_zero]
    rw [join2_length_cons]; simp [joinKey, Split.join2]
  have l2 : (K [u, c, g] 2).length = u.length + 2 + (c.length + 2 + g.length) := by
    simp only [K, List.take_succ_cons, List.take_zero]
    rw [join2_length_cons, join2_length_cons]; simp [joinKey, Split.join2]
  intro j1 j2 h1 h2 hne heq
  have hl := congrArg List.length heq
  simp only [List.length_cons, List.length_nil] at h1 h2
  have c1 : j1 = 0 ∨ j1 = 1 ∨ j1 = 2 := by omega
  have c2 : j2 = 0 ∨ j2 = 1 ∨ j2 = 2 := by omega
  rcases c1 with rfl | rfl | rfl <;> rcases c2 with rfl | rfl | rfl <;>
    first
      | exact absurd rfl hne
      | (rw [l0, l1] at hl; omega) | (rw [l0, l2] at hl; omega) | (rw [l1, l0] at hl; omega)
      | (rw [l1, l2] at hl; omega) | (rw [l2, l0] at hl; omega) | (rw [l2, l1] at hl; omega)

/-- **every stored node is reachable from its parent (creation).** After a session is created the
    user node lists the client node and the client node lists the grant — for every identifier
    string, provided whatever was stored before under the user's and the client's key was a user /
    client node -/
theorem create_links (db : DB) (u c g : Str) (k : Kind)
    (hwf : ∀ j, j < 2 → ∀ n, lookup db (K [u, c, g] j) = some n → isInner n = true) :
    ∀ j, j + 1 < 3 →
      ∃ n, lookup (addGrant db u c g k) (K [u, c, g] j) = some n ∧ isInner n = true ∧ K [u, c, g] (j+1) ∈ n.subs := by
  intro j hj
  unfold addGrant set
  simp only
  have := setLoop_links { kind := k, id := g, subs := [], revoked := false } [u, c, g] (by simp) (branch_keys_distinct u c g)
    3 0 none (setupBranch db [u, c] 2 0) (by simp) (by simp) (fun sk h => by cases h)
    (fun j' _ hj' n hn => inner_setupBranch [u, c] (by simp) _ 2 0 db (hwf j' (by simp at hj'; omega)) n hn)
    j (fun _ => Nat.zero_le _) (Nat.zero_le _) (by simpa using hj)
  simpa using this

/-! ### removing a session touches the keys of its own branch only, and removes the grant -/

theorem lookup_del_eq (db : DB) (k : Str) : lookup (del db k) k = none := by
  induction db with
  | nil => rfl
  | cons e rest ih =>
    obtain ⟨k0, n0⟩ := e
    simp only [del, List.filter] at ih ⊢
    by_cases hk : k0 = k
    · subst hk; simpa using ih
    · simp only [ne_eq, hk, not_false_eq_true, decide_true]
      simp only [lookup, List.find?] at ih ⊢
      simp only [hk, decide_false]
      exact ih

/-- the upward part of `Database.delete` (a subordinate is being unlinked) only writes the keys of the
    prefixes it still has to visit -/
theorem lookup_deleteLoop_up (path : List Str) (x : Str)
    (fuel i : Nat) (hx : ∀ i', i ≤ i' → x ≠ joinKey (path.take (path.length - i')))
    (s : Str) (db db' : DB) (hd : deleteLoop path fuel i (some s) db = some db') :
    lookup db' x = lookup db x := by
  induction fuel generalizing i s db db' with
  | zero => simp [deleteLoop] at hd; subst hd; rfl
  | succ f ih =>
    unfold deleteLoop at hd
    simp only at hd
    split at hd
    · cases hd; rfl
    · split at hd
      · exact ih (i+1) (fun i' hi' => hx i' (by omega)) _ _ _ hd
      · rename_i node _
        split at hd
        · simp at hd
        · split at hd
          · split at hd
            · rw [ih (i+1) (fun i' hi' => hx i' (by omega)) _ _ _ hd]
              exact lookup_del_ne _ _ _ (hx i (Nat.le_refl _))
            · cases hd
              exact lookup_put_ne _ _ _ _ (hx i (Nat.le_refl _))
          · cases hd; rfl

theorem lookup_deleteLoop_up_other (path : List Str) (x : Str) (hx : ∀ m, x ≠ joinKey (path.take m))
    (fuel i : Nat) (s : Str) (db db' : DB) (hd : deleteLoop path fuel i (some s) db = some db') :
    lookup db' x = lookup db x :=
  lookup_deleteLoop_up path x fuel i (fun _ _ => hx _) s db db' hd

theorem joinKey_length_cons_le (a : Str) (rest : List Str) : a.length ≤ (joinKey (a :: rest)).length := by
  cases rest with
  | nil => simp [joinKey, Split.join2]
  | cons b r => rw [join2_length_cons]; omega

/-- a proper prefix of a path has a strictly shorter key (each further component adds the divider) -/
theorem joinKey_take_lt (path : List Str) (m : Nat) (hm : m < path.length) (hp : 2 ≤ path.length) :
    (joinKey (path.take m)).length < (joinKey path).length := by
  induction path generalizing m with
  | nil => simp at hm
  | cons a rest ih =>
    cases rest with
    | nil => simp at hp
    | cons b r =>
      rw [join2_length_cons]
      cases m with
      | zero => simp [joinKey, Split.join2]; omega
      | succ m' =>
        cases m' with
        | zero =>
          simp only [List.take_succ_cons, List.take_zero]
          simp [joinKey, Split.join2]; omega
        | succ m'' =>
          simp only [List.take_succ_cons]
          rw [join2_length_cons]
          have hm2 : m'' + 1 < (b :: r).length := by simpa using hm
          by_cases hr : 2 ≤ (b :: r).length
          · have := ih (m''+1) hm2 hr
            simp only [List.take_succ_cons] at this
            omega
          · -- b :: r has one element: no proper non-empty prefix beyond it
            have : r = [] := by
              cases r with
              | nil => rfl
              | cons _ _ => simp at hr
            subst this
            simp at hm2

/-- **removal is local.** Removing a session whose leaf is a grant (not a user / client node) leaves
    every node outside the branch exactly as it was -/
theorem remove_grant_is_local (db : DB) (path : List Str) (db' : DB) (x : Str)
    (hx : ∀ m, x ≠ joinKey (path.take m))
    (hleaf : ∀ n, lookup db (joinKey path) = some n → isInner n = false)
    (hlen : 2 ≤ path.length) (hd : delete db path = some db') : lookup db' x = lookup db x := by
  have hdel : delete db path = (if ¬ hasKey db (path.headD []) then some db else
      if path.length = 1 then deleteSubTree (db.length + 1) db (path.headD []) else deleteLoop path path.length 0 none db) := by
    cases path with
    | nil => simp at hlen
    | cons p0 rest => rfl
  rw [hdel] at hd
  split at hd
  · cases hd; rfl
  · have hne : ¬ (path.length = 1) := by omega
    simp only [hne, ↓reduceIte] at hd
    -- first round: the leaf
    obtain ⟨f, hf⟩ : ∃ f, path.length = f + 1 := ⟨path.length - 1, by omega⟩
    rw [hf] at hd
    unfold deleteLoop at hd
    simp only at hd
    have h0 : ¬ (0 ≥ path.length) := by omega
    simp only [h0, ↓reduceIte, Nat.sub_zero, List.take_length] at hd
    split at hd
    · exact lookup_deleteLoop_up_other path x hx _ _ _ _ _ hd
    · rename_i node hnode
      have hni : isInner node = false := hleaf node hnode
      simp only [hni, Bool.false_eq_true, false_and, ↓reduceIte] at hd
      rw [lookup_deleteLoop_up_other path x hx _ _ _ _ _ hd]
      have := hx path.length
      rw [List.take_length] at this
      exact lookup_del_ne _ _ _ this

/-- **a removed grant is gone.** After removing a session whose leaf is a grant nothing is stored under
    its key any more — for every identifier string -/
theorem remove_grant_removes (db : DB) (path : List Str) (db' : DB)
    (hleaf : ∀ n, lookup db (joinKey path) = some n → isInner n = false)
    (hpresent : hasKey db (path.headD []) = true)
    (hlen : 2 ≤ path.length) (hd : delete db path = some db') : lookup db' (joinKey path) = none ∨ lookup db (joinKey path) = none := by
  have hdel : delete db path = (if ¬ hasKey db (path.headD []) then some db else
      if path.length = 1 then deleteSubTree (db.length + 1) db (path.headD []) else deleteLoop path path.length 0 none db) := by
    cases path with
    | nil => simp at hlen
    | cons p0 rest => rfl
  rw [hdel] at hd
  simp only [hpresent, not_true_eq_false, ↓reduceIte] at hd
  have hne : ¬ (path.length = 1) := by omega
  simp only [hne, ↓reduceIte] at hd
  obtain ⟨f, hf⟩ : ∃ f, path.length = f + 1 := ⟨path.length - 1, by omega⟩
  rw [hf] at hd
  unfold deleteLoop at hd
  simp only at hd
  have h0 : ¬ (0 ≥ path.length) := by omega
  simp only [h0, ↓reduceIte, Nat.sub_zero, List.take_length] at hd
  have hup : ∀ i', 1 ≤ i' → joinKey path ≠ joinKey (path.take (path.length - i')) := by
    intro i' hi' heq
    have := joinKey_take_lt path (path.length - i') (by omega) hlen
    rw [← heq] at this
    omega
  split at hd
  · rename_i hnone; exact Or.inr hnone
  · rename_i node hnode
    have hni : isInner node = false := hleaf node hnode
    simp only [hni, Bool.false_eq_true, false_and, ↓reduceIte] at hd
    left
    rw [lookup_deleteLoop_up path (joinKey path) _ 1 hup _ _ _ hd]
    exact lookup_del_eq _ _

/-- … and every step of every history keeps the flat dictionary's keys unique: one node per path -/
def runOps (db : DB) : List Op → DB
  | [] => db
  | op :: ops => runOps ((step db op).getD db) ops

theorem uniq_reachable (ops : List Op) : Uniq (runOps [] ops) := by
  have : ∀ db, Uniq db → Uniq (runOps db ops) := by
    induction ops with
    | nil => intro db h; exact h
    | cons op ops ih =>
      intro db h
      simp only [runOps]
      apply ih
      cases hs : step db op with
      | none => simpa using h
      | some d => simpa using uniq_step db op d h hs
  exact this [] (by simp [Uniq, keys])

end Idpy.SessionDB
