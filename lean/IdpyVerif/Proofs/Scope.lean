import IdpyVerif.Proofs.Provider
namespace Idpy.Provider

def Sub (a b : List Str) : Prop := ∀ x ∈ a, x ∈ b

/-- what the scope analysis needs an operation to preserve about an existing token -/
structure KS (t t' : Tok) : Prop where
  id : t'.id = t.id
  gid : t'.gid = t.gid
  basedOn : t'.basedOn = t.basedOn
  scope : t'.scope = t.scope

theorem KS.refl (t : Tok) : KS t t := ⟨rfl, rfl, rfl, rfl⟩
theorem KS.trans {a b c : Tok} (h1 : KS a b) (h2 : KS b c) : KS a c :=
  ⟨h2.id.trans h1.id, h2.gid.trans h1.gid, h2.basedOn.trans h1.basedOn, h2.scope.trans h1.scope⟩

/-- every token of `b` is an old token of `a` (nothing new) -/
def OldT (a b : List Tok) : Prop := ∀ t' ∈ b, ∃ t ∈ a, KS t t'

theorem OldT.refl (a : List Tok) : OldT a a := fun t ht => ⟨t, ht, KS.refl t⟩
theorem OldT.trans {a b c : List Tok} (h1 : OldT a b) (h2 : OldT b c) : OldT a c := by
  intro t ht
  obtain ⟨t1, h1m, k1⟩ := h2 t ht
  obtain ⟨t0, h0m, k0⟩ := h1 t1 h1m
  exact ⟨t0, h0m, k0.trans k1⟩

theorem oldT_map (a : List Tok) (f : Tok → Tok) (hf : ∀ t, KS t (f t)) : OldT a (a.map f) := by
  intro t ht
  obtain ⟨t0, h0, rfl⟩ := List.mem_map.mp ht
  exact ⟨t0, h0, hf t0⟩

theorem oldT_updTok (a : List Tok) (id : Nat) (f : Tok → Tok) (hf : ∀ t, KS t (f t)) : OldT a (updTok a id f) := by
  unfold updTok
  apply oldT_map
  intro t; split
  · exact hf t
  · exact KS.refl t

theorem oldT_filter (a : List Tok) (p : Tok → Bool) : OldT a (a.filter p) :=
  fun t ht => ⟨t, (List.mem_filter.mp ht).1, KS.refl t⟩

/-- from the existing `Evolve` facts that hold for every bound -/
theorem oldT_of_evolve {a b : List Tok} (h : ∀ n, Evolve n a b) : OldT a b := by
  intro t ht
  rcases h (t.id + 1) t ht with ⟨t0, h0, k⟩ | ⟨hlt, _⟩
  · exact ⟨t0, h0, ⟨k.id, k.gid, k.basedOn, k.scope⟩⟩
  · exact absurd hlt (Nat.not_succ_le_self _)

/-- the scope invariant of a provider state -/
structure SInv (s : St) : Prop where
  inv : Inv s
  lt : ∀ t ∈ s.toks, t.gid < s.next ∧ ∀ b, t.basedOn = some b → b < t.id   -- a token is younger than its base
  glt : ∀ g ∈ s.grants, g.id < s.next
  sc : ∀ t ∈ s.toks, (∃ g ∈ s.grants, g.id = t.gid) ∧ ∀ g ∈ s.grants, g.id = t.gid → Sub t.scope g.scope
  guniq : ∀ g1 ∈ s.grants, ∀ g2 ∈ s.grants, g1.id = g2.id → g1.scope = g2.scope

theorem sinv_init : SInv {} := by
  refine ⟨inv_init, ?_, ?_, ?_, ?_⟩
  · intro t ht; simp at ht
  · intro g hg; simp at hg
  · intro t ht; simp at ht
  · intro g hg; simp at hg

/-- token list replaced by an old-only transform, grants / clock / pending arbitrary as long as the
    grants keep ids and scopes and still cover the tokens -/
theorem sinv_old (s : St) (toks : List Tok) (grants : List Gr) (now : Nat) (pending : List Req) (h : SInv s)
    (hi : Inv { s with toks := toks, grants := grants, now := now, pending := pending })
    (ho : OldT s.toks toks)
    (hg1 : ∀ g' ∈ grants, ∃ g ∈ s.grants, g.id = g'.id ∧ g.scope = g'.scope)
    (hg2 : ∀ t' ∈ toks, ∃ g' ∈ grants, g'.id = t'.gid) :
    SInv { s with toks := toks, grants := grants, now := now, pending := pending } := by
  refine ⟨hi, ?_, ?_, ?_, ?_⟩
  rotate_right
  · intro g1 hg1' g2 hg2' hid
    obtain ⟨a1, ha1, i1, s1⟩ := hg1 g1 hg1'
    obtain ⟨a2, ha2, i2, s2⟩ := hg1 g2 hg2'
    rw [← s1, ← s2]
    exact h.guniq a1 ha1 a2 ha2 (by rw [i1, i2]; exact hid)
  · intro t' ht'
    obtain ⟨t, ht, k⟩ := ho t' ht'
    have := h.lt t ht
    simp only
    rw [k.gid, k.basedOn, k.id]
    exact this
  · intro g' hg'
    obtain ⟨g, hg, hid, _⟩ := hg1 g' hg'
    simp only
    rw [← hid]; exact h.glt g hg
  · intro t' ht'
    obtain ⟨t, ht, k⟩ := ho t' ht'
    refine ⟨hg2 t' ht', ?_⟩
    intro g' hg' hid
    obtain ⟨g, hg, hgid, hgs⟩ := hg1 g' hg'
    rw [k.scope, ← hgs]
    exact (h.sc t ht).2 g hg (by rw [hgid, hid, k.gid])

/-- only the token list changes (grants untouched) -/
theorem sinv_toks (s : St) (toks : List Tok) (h : SInv s) (hi : Inv { s with toks := toks }) (ho : OldT s.toks toks) :
    SInv { s with toks := toks } := by
  have := sinv_old s toks s.grants s.now s.pending h hi ho (fun g hg => ⟨g, hg, rfl, rfl⟩)
    (fun t' ht' => by obtain ⟨t, ht, k⟩ := ho t' ht'; rw [k.gid]; exact (h.sc t ht).1)
  exact this

theorem findScope_sub' (s : St) (h : SInv s) (g : Gr) (hg : g ∈ s.grants) :
    ∀ (fuel : Nat) (b : Option Nat), Sub (findScope s g fuel b) g.scope := by
  intro fuel
  induction fuel with
  | zero => intro b x hx; simpa [findScope] using hx
  | succ f ih =>
    intro b
    cases b with
    | none => intro x hx; simpa [findScope] using hx
    | some bb =>
      unfold findScope
      split
      · intro x hx; exact hx
      · rename_i t ht
        have hm := findTok_mem ht
        split
        · intro x hx; exact hx
        · rename_i hgid
          have hgid' : t.gid = g.id := by simpa using hgid
          split
          · exact (h.sc t hm.1).2 g hg hgid'.symm
          · exact ih _


/-- a freshly minted token appended to an old-only transform of the token list -/
theorem sinv_append (s : St) (toks : List Tok) (n : Tok) (h : SInv s)
    (hi : Inv { s with next := s.next + 1, toks := toks ++ [n] })
    (ho : OldT s.toks toks) (hid : n.id = s.next) (g : Gr) (hg : g ∈ s.grants) (hgid : n.gid = g.id)
    (hsc : Sub n.scope g.scope) (hbl : ∀ b, n.basedOn = some b → b < s.next) :
    SInv { s with next := s.next + 1, toks := toks ++ [n] } := by
  refine ⟨hi, ?_, ?_, ?_, h.guniq⟩
  · intro t' ht'
    simp only [List.mem_append, List.mem_singleton] at ht'
    rcases ht' with ht' | rfl
    · obtain ⟨t, ht, k⟩ := ho t' ht'
      have := h.lt t ht
      simp only
      rw [k.gid, k.basedOn, k.id]
      exact ⟨Nat.lt_succ_of_lt this.1, this.2⟩
    · simp only
      rw [hgid, hid]
      exact ⟨Nat.lt_succ_of_lt (h.glt g hg), hbl⟩
  · intro g' hg'; exact Nat.lt_succ_of_lt (h.glt g' hg')
  · intro t' ht'
    simp only [List.mem_append, List.mem_singleton] at ht'
    rcases ht' with ht' | rfl
    · obtain ⟨t, ht, k⟩ := ho t' ht'
      rw [k.gid, k.scope]
      exact h.sc t ht
    · refine ⟨⟨g, hg, hgid.symm⟩, ?_⟩
      intro g' hg' hid'
      rw [← h.guniq g hg g' hg' (by rw [hid', hgid])]
      exact hsc

theorem ks_used (t : Tok) (u : Nat) : KS t { t with used := u } := ⟨rfl, rfl, rfl, rfl⟩
theorem ks_revoked (t : Tok) : KS t { t with revoked := true } := ⟨rfl, rfl, rfl, rfl⟩
theorem ks_mints (t : Tok) (m : List Cls) : KS t { t with mints := m } := ⟨rfl, rfl, rfl, rfl⟩

/-- **minting keeps the scope invariant**: the new token's scope is the explicit one (which the
    caller checked against the grant) or what `find_scope` finds in the base's ancestry -/
theorem mint_sinv {cfg : Cfg} {s : St} {g : Gr} {cls : Cls} {base : Option Nat} {scope : Option (List Str)} {s' : St} {id : Nat}
    (hm : mint cfg s g cls base scope = .ok s' id) (h : SInv s) (hg : g ∈ s.grants)
    (hs : ∀ sc, scope = some sc → Sub sc g.scope) : SInv s' := by
  have hinv : Inv s' := mint_ok_inv hm h.inv
  unfold mint at hm
  split at hm
  · simp at hm
  · split at hm
    · simp only [MintRes.ok.injEq] at hm
      obtain ⟨rfl, _⟩ := hm
      refine sinv_append s s.toks _ h hinv (OldT.refl _) (by simp [newTok]) g hg (by simp [newTok]) ?_ (by simp [newTok])
      simp only [newTok]
      cases scope with
      | none => intro x hx; exact hx
      | some sc => exact hs sc rfl
    · rename_i b
      split at hm
      · simp at hm
      · rename_i bt hbt
        split at hm
        · simp at hm
        · split at hm
          · simp at hm
          · simp only [MintRes.ok.injEq] at hm
            obtain ⟨rfl, _⟩ := hm
            have hbm := findTok_mem hbt
            refine sinv_append s _ _ h hinv (oldT_updTok _ _ _ (fun t => ks_used t _)) (by simp [newTok]) g hg (by simp [newTok]) ?_ ?_
            · simp only [newTok]
              cases scope with
              | none => exact findScope_sub' s h g hg _ (some b)
              | some sc => exact hs sc rfl
            · intro b' hb'
              simp only [newTok, Option.some.injEq] at hb'
              rw [← hb', ← hbm.2]
              exact inv_lt h.inv hbm.1

/-- the exchange mint keeps the scope invariant when the explicit scope is inside the grant's -/
theorem mintX_sinv {cfg : Cfg} {s : St} {g : Gr} {cls : Cls} {b : Nat} {sc : List Str} {s' : St} {id : Nat}
    (hm : mintX cfg s g cls b sc = .ok s' id) (h : SInv s) (hg : g ∈ s.grants) (hs : Sub sc g.scope) : SInv s' := by
  have hinv : Inv s' := mintX_ok_inv hm h.inv
  obtain ⟨bt, hbt, _, _, _, _, rfl⟩ := mintX_ok_shape hm
  have hbm := findTok_mem hbt
  refine sinv_append s _ _ h hinv (oldT_updTok _ _ _ (fun t => ks_used t _)) (by simp [newTok]) g hg (by simp [newTok]) ?_ ?_
  · simpa [newTok] using hs
  · intro b' hb'
    simp only [newTok, Option.some.injEq] at hb'
    rw [← hb', ← hbm.2]
    exact inv_lt h.inv hbm.1


theorem findGr_mem {s : St} {i : Nat} {g : Gr} (h : findGr s i = some g) : g ∈ s.grants ∧ g.id = i := by
  unfold findGr at h
  exact ⟨List.mem_of_find?_eq_some h, by simpa using List.find?_some h⟩

/-- the invariant together with what a chain of mints from token `c` of grant `g` needs -/
structure Good (s : St) (g : Gr) (c : Nat) : Prop where
  sinv : SInv s
  gmem : g ∈ s.grants
  clt : c < s.next
  cin : ∀ bt ∈ s.toks, bt.id = c → bt.gid = g.id

theorem good_updTok (s : St) (g : Gr) (c i : Nat) (f : Tok → Tok) (hf : ∀ t, KS t (f t)) (h : Good s g c) :
    Good { s with toks := updTok s.toks i f } g c := by
  have hid : ∀ t, (f t).id = t.id := fun t => (hf t).id
  refine ⟨sinv_toks s _ h.sinv (inv_of_idsSub (Nat.le_refl _) (idsSub_updTok _ _ _ hid) h.sinv.inv) (oldT_updTok _ _ _ hf), h.gmem, h.clt, ?_⟩
  intro bt' hbt' hbid
  obtain ⟨bt, hbt, k⟩ := oldT_updTok s.toks i f hf bt' hbt'
  rw [k.gid]; exact h.cin bt hbt (by rw [← k.id]; exact hbid)

theorem good_mint {cfg : Cfg} {s : St} {g : Gr} {cls : Cls} {c : Nat} {scope : Option (List Str)} {s' : St} {id : Nat}
    (hm : mint cfg s g cls (some c) scope = .ok s' id) (h : Good s g c)
    (hs : ∀ sc, scope = some sc → Sub sc g.scope) : Good s' g c := by
  have hn := mint_ok_next hm
  have hadv := mint_ok_adv hm
  refine ⟨mint_sinv hm h.sinv h.gmem hs, by rw [hn.2.2.2.1]; exact h.gmem, by rw [hn.1]; exact Nat.lt_succ_of_lt h.clt, ?_⟩
  · intro bt' hbt' hbid
    rcases hadv.ev bt' hbt' with ⟨bt, hbt, k⟩ | ⟨hge, _⟩
    · rw [k.gid]; exact h.cin bt hbt (by rw [← k.id]; exact hbid)
    · rw [hbid] at hge; exact absurd (Nat.lt_of_lt_of_le h.clt hge) (Nat.lt_irrefl _)

theorem good_decUsed (s : St) (g : Gr) (c i : Nat) (h : Good s g c) : Good (decUsed s i) g c :=
  good_updTok s g c i _ (fun t => ks_used t _) h
theorem good_incUsed (s : St) (g : Gr) (c i : Nat) (h : Good s g c) : Good (incUsed s i) g c :=
  good_updTok s g c i _ (fun t => ks_used t _) h

theorem good_mintAfterDec (cfg : Cfg) (s : St) (g : Gr) (cls : Cls) (c : Nat) (want : Bool) (h : Good s g c) :
    Good (mintAfterDec cfg s g cls c want).1 g c := by
  unfold mintAfterDec
  split
  · split
    · rename_i hm
      exact good_mint hm (good_decUsed s g c c h) (fun sc hsc => by cases hsc)
    · exact good_decUsed s g c c h
  · exact h

theorem good_mintExtra (cfg : Cfg) (s : St) (g : Gr) (cls : Cls) (c : Nat) (sc : List Str) (want : Bool) (h : Good s g c)
    (hs : Sub sc g.scope) : Good (mintExtra cfg s g cls c sc want).1 g c := by
  unfold mintExtra
  split
  · split
    · rename_i hm
      exact good_mint hm h (fun sc' hsc => by cases hsc; exact hs)
    · exact h
  · exact h

theorem good_setMints (s : St) (g : Gr) (c : Nat) (i : Option Nat) (m : List Cls) (h : Good s g c) : Good (setMints s i m) g c := by
  unfold setMints
  split
  · exact h
  · exact good_updTok s g c _ _ (fun t => ks_mints t _) h

theorem good_revokeIf (s : St) (g : Gr) (c : Nat) (b : Bool) (i : Nat) (h : Good s g c) : Good (revokeIf s b i) g c := by
  unfold revokeIf
  split
  · exact good_updTok s g c _ _ (fun t => ks_revoked t) h
  · exact h

theorem sinv_frame (s : St) (now : Nat) (p : List Req) (h : SInv s) : SInv { s with now := now, pending := p } := by
  have := sinv_old s s.toks s.grants now p h h.inv (OldT.refl _) (fun g hg => ⟨g, hg, rfl, rfl⟩)
    (fun t ht => (h.sc t ht).1)
  exact this

theorem sinv_revokeGr (s : St) (gid : Nat) (h : SInv s) : SInv (revokeGr s gid) := by
  have hi := (revokeGr_adv s gid).inv h.inv
  have ho : OldT s.toks (revokeGr s gid).toks := oldT_of_evolve (fun n => revokeGr_evolve n s gid)
  have := sinv_old s (revokeGr s gid).toks (revokeGr s gid).grants s.now s.pending h hi ho ?_ ?_
  · exact this
  · intro g' hg'
    simp only [revokeGr] at hg'
    obtain ⟨g, hg, rfl⟩ := List.mem_map.mp hg'
    refine ⟨g, hg, ?_, ?_⟩ <;> split <;> rfl
  · intro t' ht'
    obtain ⟨t, ht, k⟩ := ho t' ht'
    obtain ⟨g, hg, hgid⟩ := (h.sc t ht).1
    refine ⟨if g.id = gid then { g with revoked := true } else g, ?_, ?_⟩
    · simp only [revokeGr]
      exact List.mem_map.mpr ⟨g, hg, rfl⟩
    · rw [k.gid, ← hgid]; split <;> rfl

theorem sinv_foldl_revokeGr (gs : List Nat) (s : St) (h : SInv s) : SInv (gs.foldl revokeGr s) := by
  induction gs generalizing s with
  | nil => exact h
  | cons g gs ih => exact ih _ (sinv_revokeGr s g h)


theorem sinv_toks_evolve (s : St) (toks : List Tok) (h : SInv s) (he : ∀ n, Evolve n s.toks toks) (hs : IdsSub s.toks toks) :
    SInv { s with toks := toks } :=
  sinv_toks s toks h (inv_of_idsSub (Nat.le_refl _) hs h.inv) (oldT_of_evolve he)

theorem isSubset_sub' {a b : List Str} (h : isSubset a b = true) : Sub a b := by
  intro x hx
  simp only [isSubset, List.all_eq_true] at h
  simpa using h x hx

/-- a new grant record with the fresh id keeps the invariant -/
theorem sinv_newGrant (s : St) (g' : Gr) (hid' : g'.id = s.next) (h : SInv s) :
    SInv { s with next := s.next + 1, grants := s.grants ++ [g'] } := by
  refine ⟨inv_of_idsSub (Nat.le_succ _) (IdsSub.refl _) h.inv, ?_, ?_, ?_, ?_⟩
  · intro t ht
    have := h.lt t ht
    exact ⟨Nat.lt_succ_of_lt this.1, this.2⟩
  · intro g hg
    simp only [List.mem_append, List.mem_singleton] at hg
    rcases hg with hg | rfl
    · exact Nat.lt_succ_of_lt (h.glt g hg)
    · simp [hid']
  · intro t ht
    refine ⟨?_, ?_⟩
    · obtain ⟨g, hg, hid⟩ := (h.sc t ht).1
      exact ⟨g, List.mem_append_left _ hg, hid⟩
    · intro g hg hid
      simp only [List.mem_append, List.mem_singleton] at hg
      rcases hg with hg | rfl
      · exact (h.sc t ht).2 g hg hid
      · have := (h.lt t ht).1
        rw [← hid, hid'] at this
        exact absurd this (Nat.lt_irrefl _)
  · intro g1 hg1 g2 hg2 hid
    simp only [List.mem_append, List.mem_singleton] at hg1 hg2
    rcases hg1 with hg1 | rfl <;> rcases hg2 with hg2 | rfl
    · exact h.guniq g1 hg1 g2 hg2 hid
    · have := h.glt g1 hg1; rw [hid, hid'] at this; exact absurd this (Nat.lt_irrefl _)
    · have := h.glt g2 hg2; rw [← hid, hid'] at this; exact absurd this (Nat.lt_irrefl _)
    · rfl

theorem xScope_sub (req : Option (List Str)) (subj : List Str) : Sub (xScope req subj) subj := by
  intro x hx
  simp only [xScope, List.mem_eraseDups, List.mem_filter] at hx
  simpa using hx.2

/-- **every API step keeps the scope invariant** -/
theorem step_sinv (cfg : Cfg) (s : St) (op : Op) (h : SInv s) : SInv (step cfg s op).1 := by
  cases op with
  | tick n => exact sinv_frame s _ _ h
  | authorize user client scope redirect =>
    simp only [step]
    split
    · exact h
    split
    · rename_i s2 c hm
      have h1 := sinv_newGrant s (mkGrant cfg s user client scope redirect) (by simp [mkGrant]) h
      exact mint_sinv hm h1 (by simp) (fun sc hsc => by cases hsc)
    · exact h
  | tokenParse client code redirect =>
    simp only [step]
    split
    · exact h
    · split
      · exact h
      · split
        · exact h
        · split
          · exact sinv_toks_evolve s _ h (fun n => revokeBasedOn_evolve n _ _ _ _) (revokeBasedOn_idsSub _ _ _ _)
          · split
            · exact h
            · exact sinv_frame s _ _ h
  | tokenProcess idx =>
    simp only [step]
    split
    · exact h
    · rename_i r hr
      have h0 : SInv { s with pending := s.pending.eraseIdx idx } := sinv_frame s s.now _ h
      split
      · exact h0
      · rename_i ct hct
        split
        · exact h0
        · rename_i g hg
          have hgm := findGr_mem hg
          have hcm := findTok_mem hct
          have good0 : Good { s with pending := s.pending.eraseIdx idx } g r.code :=
            ⟨h0, hgm.1, by rw [← hcm.2]; exact inv_lt h0.inv hcm.1,
             fun bt hbt hbid => by
               have : bt = ct := inv_uniq h0.inv hbt hcm.1 (by rw [hbid, hcm.2])
               rw [this, hgm.2]⟩
          split
          · exact h0
          · split
            · exact h0
            · split
              · exact h0
              · split
                · exact h0
                · exact (good_incUsed _ g _ _ good0).sinv
              · rename_i s1 atk hm
                have g1 := good_mint hm good0 (fun sc hsc => by cases hsc)
                have g2 := fun w => good_mintAfterDec cfg s1 g .refresh r.code w g1
                have g3 := fun w1 w2 => good_mintAfterDec cfg _ g .idtoken r.code w2 (g2 w1)
                exact (good_incUsed _ g _ _ (g3 _ _)).sinv
  | refresh client rt scope =>
    simp only [step]
    split
    · exact h
    · rename_i t ht
      split
      · exact h
      · rename_i g hg
        have hgm := findGr_mem hg
        have htm := findTok_mem ht
        have good0 : Good s g rt :=
          ⟨h, hgm.1, by rw [← htm.2]; exact inv_lt h.inv htm.1,
           fun bt hbt hbid => by
             have : bt = t := inv_uniq h.inv hbt htm.1 (by rw [hbid, htm.2])
             rw [this, hgm.2]⟩
        have hbound : Sub (findScope s g (s.toks.length + 1) t.basedOn) g.scope :=
          findScope_sub' s h g hgm.1 _ _
        have hself : Sub (findScope s g (s.toks.length + 1) (some rt)) g.scope :=
          findScope_sub' s h g hgm.1 _ _
        split
        · exact h
        · split
          · exact h
          · split
            · exact h
            · rename_i hbad
              have hsc : Sub (scope.getD (if cfg.oidc then findScope s g (s.toks.length + 1) t.basedOn else findScope s g (s.toks.length + 1) (some rt))) g.scope := by
                cases scope with
                | some x =>
                  simp only [Option.getD_some]
                  have : isSubset x (findScope s g (s.toks.length + 1) t.basedOn) = true := by simpa [scopeBad] using hbad
                  intro y hy
                  exact hbound y (isSubset_sub' this y hy)
                | none =>
                  simp only [Option.getD_none]
                  split
                  · exact hbound
                  · exact hself
              split
              · exact h
              · split
                · exact h
                · exact h
                · rename_i s1 atk hm
                  have g1 := good_mint hm good0 (fun sc' hsc' => by cases hsc'; exact hsc)
                  have g2 := fun w => good_mintExtra cfg s1 g .refresh rt _ w g1 hsc
                  have g3 := fun w i => good_setMints _ g rt i t.mints (g2 w)
                  have g4 := fun w1 i w2 => good_mintExtra cfg _ g .idtoken rt _ w2 (g3 w1 i) hsc
                  have g5 := fun w1 i w2 => good_incUsed _ g rt rt (g4 w1 i w2)
                  exact (good_revokeIf _ g rt _ rt (g5 _ _ _)).sinv
  | exchange client subj styp rtyp scope =>
    simp only [step]
    split
    · exact h
    · rename_i t ht
      split
      · exact h
      · rename_i g hg
        have hgm := findGr_mem hg
        have htm := findTok_mem ht
        have hsub : Sub (xScope scope t.scope) g.scope := fun x hx =>
          (h.sc t htm.1).2 g hgm.1 hgm.2 x (xScope_sub scope t.scope x hx)
        repeat (first
          | exact h
          | exact sinv_newGrant s _ (by simp [mkXGrant]) h
          | (rename_i hm; exact mintX_sinv hm h hgm.1 hsub)
          | (rename_i hm; exact mintX_sinv hm (sinv_newGrant s _ (by simp [mkXGrant]) h) (by simp) (by simp [mkXGrant, Sub]))
          | split)
  | userinfo tok =>
    simp only [step]
    repeat (first | exact h | split)
  | introspect c tok =>
    simp only [step]
    repeat (first | exact h | split)
  | revokeEp c tok =>
    simp only [step]
    repeat (first | exact h | exact sinv_toks_evolve s _ h (fun n => evolve_updTok n _ _ _ (fun t => keeps_revoke t)) (idsSub_updTok _ _ _ (fun _ => rfl)) | split)
  | revokeTok tok r =>
    simp only [step]
    split
    · exact h
    · split
      · exact sinv_toks_evolve s _ h
          (fun n => Evolve.trans (Nat.le_refl _) (evolve_updTok n _ _ _ (fun t => keeps_revoke t)) (revokeBasedOn_evolve n _ _ _ _))
          ((idsSub_updTok s.toks tok (fun x => { x with revoked := true }) (fun _ => rfl)).trans (revokeBasedOn_idsSub _ _ _ _))
      · exact sinv_toks_evolve s _ h (fun n => evolve_updTok n _ _ _ (fun t => keeps_revoke t)) (idsSub_updTok _ _ _ (fun _ => rfl))
  | revokeGrant gid =>
    simp only [step]
    split
    · exact h
    · exact sinv_revokeGr s gid h
  | revokeClient u c =>
    simp only [step]
    split
    · exact h
    · exact sinv_foldl_revokeGr _ s h
  | revokeUser u =>
    simp only [step]
    split
    · exact h
    · exact sinv_foldl_revokeGr _ s h
  | logoutAll u =>
    simp only [step]
    split
    · exact h
    · exact sinv_foldl_revokeGr _ s h
  | remove gid =>
    simp only [step]
    split
    · exact h
    · have hi : Inv { s with grants := s.grants.filter (fun g => g.id ≠ gid), toks := s.toks.filter (fun t => t.gid ≠ gid) } :=
        inv_of_idsSub (Nat.le_refl _) (idsSub_filter _ _) h.inv
      have := sinv_old s (s.toks.filter (fun t => t.gid ≠ gid)) (s.grants.filter (fun g => g.id ≠ gid)) s.now s.pending h hi
        (oldT_filter _ _) (fun g' hg' => ⟨g', (List.mem_filter.mp hg').1, rfl, rfl⟩) ?_
      · exact this
      · intro t' ht'
        have hm := List.mem_filter.mp ht'
        obtain ⟨g, hg, hid⟩ := (h.sc t' hm.1).1
        refine ⟨g, List.mem_filter.mpr ⟨hg, ?_⟩, hid⟩
        have : t'.gid ≠ gid := by simpa using hm.2
        simpa [hid] using this

theorem run_sinv (cfg : Cfg) (ops : List Op) (s : St) (h : SInv s) : SInv (run cfg s ops).1 := by
  induction ops generalizing s with
  | nil => simpa [run] using h
  | cons op ops ih =>
    simp only [run]
    exact ih _ (step_sinv cfg s op h)

end Idpy.Provider
