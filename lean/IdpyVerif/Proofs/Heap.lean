import IdpyVerif.Model.Heap
namespace Idpy.Heap

def WF (h : Heap) : Prop := ∀ a c, h.store a = some c → a < h.next
def Ext (st st' : Addr → Option Cell) : Prop := ∀ a c, st a = some c → st' a = some c

theorem Ext.refl (st) : Ext st st := fun _ _ h => h
theorem Ext.trans {a b c} (h1 : Ext a b) (h2 : Ext b c) : Ext a c := fun x y h => h2 x y (h1 x y h)

theorem depth_ext (st st' : Addr → Option Cell) (he : Ext st st') : ∀ f v, Depth st f v → Depth st' f v := by
  intro f
  induction f with
  | zero => intro v h; cases v <;> simp_all [Depth]
  | succ n ih =>
    intro v h
    cases v with
    | atom _ => trivial
    | ref a =>
      obtain ⟨c, hc, hk⟩ := h
      exact ⟨c, he a c hc, fun kv hkv => ih kv.2 (hk kv hkv)⟩

theorem fresh_ext (lo : Addr) (st st' : Addr → Option Cell) (he : Ext st st') : ∀ f v, Fresh lo st f v → Fresh lo st' f v := by
  intro f
  induction f with
  | zero => intro v h; cases v <;> simp_all [Fresh]
  | succ n ih =>
    intro v h
    cases v with
    | atom _ => trivial
    | ref a =>
      obtain ⟨hl, c, hc, hk⟩ := h
      exact ⟨hl, c, he a c hc, fun kv hkv => ih kv.2 (hk kv hkv)⟩

theorem fresh_lo (lo lo' : Addr) (st : Addr → Option Cell) (hl : lo ≤ lo') : ∀ f v, Fresh lo' st f v → Fresh lo st f v := by
  intro f
  induction f with
  | zero => intro v h; cases v <;> simp_all [Fresh]
  | succ n ih =>
    intro v h
    cases v with
    | atom _ => trivial
    | ref a =>
      obtain ⟨h1, c, hc, hk⟩ := h
      exact ⟨Nat.le_trans hl h1, c, hc, fun kv hkv => ih kv.2 (hk kv hkv)⟩

theorem alloc_spec (h : Heap) (c : Cell) (hw : WF h) :
    WF (alloc h c).1 ∧ (alloc h c).1.next = h.next + 1 ∧ Ext h.store (alloc h c).1.store ∧ (alloc h c).1.store h.next = some c ∧ (alloc h c).2 = h.next := by
  refine ⟨?_, rfl, ?_, by simp [alloc], rfl⟩
  · intro a c' hs
    show a < h.next + 1
    by_cases e : a = h.next
    · rw [e]; exact Nat.lt_succ_self _
    · have hs' : h.store a = some c' := by
        simp only [alloc] at hs
        simpa [e] using hs
      exact Nat.lt_succ_of_lt (hw a c' hs')
  · intro a c' hs
    show (if a = h.next then some c else h.store a) = some c'
    have hlt := hw a c' hs
    have hne : a ≠ h.next := Nat.ne_of_lt hlt
    simp [hne, hs]

def ValOK (f : Nat) : Prop :=
  ∀ h v, WF h → Depth h.store f v →
    WF (copyVal f h v).1 ∧ h.next ≤ (copyVal f h v).1.next ∧ Ext h.store (copyVal f h v).1.store ∧
    Fresh h.next (copyVal f h v).1.store f (copyVal f h v).2 ∧
    (∀ a, a < h.next → (copyVal f h v).1.store a = h.store a)

def ItemsOK (f : Nat) : Prop :=
  ∀ l h, WF h → (∀ kv ∈ l, Depth h.store f kv.2) →
    WF (copyItems f h l).1 ∧ h.next ≤ (copyItems f h l).1.next ∧ Ext h.store (copyItems f h l).1.store ∧
    (∀ kv ∈ (copyItems f h l).2, Fresh h.next (copyItems f h l).1.store f kv.2) ∧
    (copyItems f h l).2.map (·.1) = l.map (·.1) ∧
    (∀ a, a < h.next → (copyItems f h l).1.store a = h.store a)

theorem items_of_val (f : Nat) (hv : ValOK f) : ItemsOK f := by
  intro l
  induction l with
  | nil =>
    intro h hw _
    rw [copyItems_nil]
    exact ⟨hw, Nat.le_refl _, Ext.refl _, by simp, rfl, fun _ _ => rfl⟩
  | cons kv rest ih =>
    intro h hw hd
    obtain ⟨k, v⟩ := kv
    rw [copyItems_cons]
    simp only
    obtain ⟨w1, n1, e1, f1, b1⟩ := hv h v hw (hd (k, v) (by simp))
    have hd' : ∀ kv ∈ rest, Depth (copyVal f h v).1.store f kv.2 :=
      fun kv hkv => depth_ext _ _ e1 f kv.2 (hd kv (by simp [hkv]))
    obtain ⟨w2, n2, e2, f2, m2, b2⟩ := ih (copyVal f h v).1 w1 hd'
    refine ⟨w2, Nat.le_trans n1 n2, Ext.trans e1 e2, ?_, by simp [m2], fun a ha => (b2 a (Nat.lt_of_lt_of_le ha n1)).trans (b1 a ha)⟩
    intro kv hkv
    simp only [List.mem_cons] at hkv
    rcases hkv with e | hkv
    · subst e
      exact fresh_ext _ _ _ e2 f _ f1
    · exact fresh_lo _ _ _ n1 f _ (f2 kv hkv)

theorem val_succ (f : Nat) (hi : ItemsOK f) : ValOK (f + 1) := by
  intro h v hw hd
  cases v with
  | atom n =>
    rw [copyVal_atom]
    exact ⟨hw, Nat.le_refl _, Ext.refl _, trivial, fun _ _ => rfl⟩
  | ref a =>
    obtain ⟨c, hc, hk⟩ := hd
    rw [copyVal_ref]
    simp only [hc]
    obtain ⟨w1, n1, e1, f1, _, b1⟩ := hi c.items h hw hk
    obtain ⟨w2, n2, e2, s2, a2⟩ := alloc_spec (copyItems f h c.items).1 { c with items := (copyItems f h c.items).2 } w1
    refine ⟨w2, by rw [n2]; exact Nat.le_succ_of_le n1, Ext.trans e1 e2, ?_, ?_⟩
    · show Fresh h.next _ (f + 1) (Val.ref _)
      rw [a2]
      refine ⟨n1, _, s2, ?_⟩
      intro kv hkv
      exact fresh_ext _ _ _ e2 f _ (f1 kv hkv)
    · intro x hx
      have hne : x ≠ (copyItems f h c.items).1.next := Nat.ne_of_lt (Nat.lt_of_lt_of_le hx n1)
      show (if x = (copyItems f h c.items).1.next then _ else (copyItems f h c.items).1.store x) = h.store x
      simp only [hne, if_false]
      exact b1 x hx

theorem val_zero : ValOK 0 := by
  intro h v hw hd
  rw [copyVal_zero]
  cases v with
  | atom n => exact ⟨hw, Nat.le_refl _, Ext.refl _, trivial, fun _ _ => rfl⟩
  | ref a => exact absurd hd (by simp [Depth])

theorem copy_ok : ∀ f, ValOK f ∧ ItemsOK f := by
  intro f
  induction f with
  | zero => exact ⟨val_zero, items_of_val 0 val_zero⟩
  | succ n ih =>
    have hv := val_succ n ih.2
    exact ⟨hv, items_of_val (n + 1) hv⟩


/-- **`copy.deepcopy` allocates, never shares**: for a value nested less deep than the fuel, the
    copy and everything reachable from it lives at or above the old allocation pointer, and no
    existing cell changes -/
theorem deepcopy_fresh (f : Nat) (h : Heap) (v : Val) (hw : WF h) (hd : Depth h.store f v) :
    WF (copyVal f h v).1 ∧ h.next ≤ (copyVal f h v).1.next ∧ Ext h.store (copyVal f h v).1.store ∧
    Fresh h.next (copyVal f h v).1.store f (copyVal f h v).2 ∧
    (∀ a, a < h.next → (copyVal f h v).1.store a = h.store a) :=
  (copy_ok f).1 h v hw hd

/-- **frame**: a structural snapshot of static state sees the same thing in every store that
    agrees with the old one below `lo` -/
theorem snap_frame (lo : Addr) (st st' : Addr → Option Cell) (hagree : ∀ a, a < lo → st' a = st a)
    (hc : StaticClosed lo st) : ∀ f v, (∀ b, v = .ref b → b < lo) → snap st' f v = snap st f v := by
  intro f
  induction f with
  | zero => intro v _; cases v <;> rfl
  | succ n ih =>
    intro v hv
    cases v with
    | atom _ => rfl
    | ref a =>
      have ha := hv a rfl
      simp only [snap, hagree a ha]
      cases hs : st a with
      | none => rfl
      | some c =>
        simp only
        congr 1
        apply List.map_congr_left
        intro kv hkv
        rw [ih kv.2 (fun b hb => hc a c ha hs kv hkv b hb)]

theorem write_below (h : Heap) (w : Addr) (c : Cell) (lo : Addr) (hw : lo ≤ w) (a : Addr) (ha : a < lo) :
    (write h w c).store a = h.store a := by
  have : a ≠ w := Nat.ne_of_lt (Nat.lt_of_lt_of_le ha hw)
  simp [write, this]

end Idpy.Heap
