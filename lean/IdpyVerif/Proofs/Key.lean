import IdpyVerif.Model.SessionDB
import IdpyVerif.Proofs.Split
namespace Idpy.SessionDB
open Idpy.Split

/-- identifier guard for a path: no element contains ";;", none but the last ends in ";" -/
abbrev SepFree (p : List Str) : Prop := Split.SepFree semi p

theorem split_join (p : List Str) (h : SepFree p) : splitKey (joinKey p) = p :=
  Split.split_join semi p h

theorem join_injective (p q : List Str) (hp : SepFree p) (hq : SepFree q)
    (h : joinKey p = joinKey q) : p = q := Split.join_injective semi p q hp hq h

end Idpy.SessionDB
