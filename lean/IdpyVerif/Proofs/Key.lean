import IdpyVerif.Model.SessionDB
namespace Idpy.SessionDB

/-- the piece contains the two-character divider -/
def hasDiv : Str → Bool
  | [] => false
  | [_] => false
  | c1 :: c2 :: rest => (c1 = semi ∧ c2 = semi) || hasDiv (c2 :: rest)

/-- guard for a path element that is followed by another one: it contains no divider and
    does not end in `;` (otherwise its last `;` fuses with the divider that follows) -/
def Inner (a : Str) : Prop := hasDiv a = false ∧ a.getLast? ≠ some semi

/-- guard for a whole path -/
def SepFree : List Str → Prop
  | [] => False
  | [a] => hasDiv a = false
  | a :: b :: rest => Inner a ∧ SepFree (b :: rest)

theorem splitAux_cons2 (c1 c2 : Nat) (rest cur : Str) :
    splitAux (c1 :: c2 :: rest) cur =
      if c1 = semi ∧ c2 = semi then cur.reverse :: splitAux rest [] else splitAux (c2 :: rest) (c1 :: cur) := by
  rw [splitAux]

theorem splitAux_last (a cur : Str) (h : hasDiv a = false) :
    splitAux a cur = [cur.reverse ++ a] := by
  induction a generalizing cur with
  | nil => simp [splitAux]
  | cons c cs ih =>
    cases cs with
    | nil => simp [splitAux]
    | cons d ds =>
      have h' : ¬ (c = semi ∧ d = semi) ∧ hasDiv (d :: ds) = false := by
        simp [hasDiv] at h; exact ⟨fun hh => h.1 hh.1 hh.2, h.2⟩
      rw [splitAux_cons2, if_neg h'.1, ih _ h'.2]
      simp

theorem splitAux_inner (a rest cur : Str) (h : Inner a) :
    splitAux (a ++ semi :: semi :: rest) cur = (cur.reverse ++ a) :: splitAux rest [] := by
  induction a generalizing cur with
  | nil => simp [splitAux]
  | cons c cs ih =>
    obtain ⟨hd, hl⟩ := h
    cases cs with
    | nil =>
      -- single char c, must not be `;`
      have hc : c ≠ semi := by simpa using hl
      simp only [List.cons_append, List.nil_append]
      rw [splitAux_cons2, if_neg (by intro hh; exact hc hh.1), splitAux_cons2, if_pos ⟨rfl, rfl⟩]
      simp
    | cons d ds =>
      have h' : ¬ (c = semi ∧ d = semi) ∧ hasDiv (d :: ds) = false := by
        simp [hasDiv] at hd; exact ⟨fun hh => hd.1 hh.1 hh.2, hd.2⟩
      have hl' : (d :: ds).getLast? ≠ some semi := by
        simpa [List.getLast?_cons_cons] using hl
      simp only [List.cons_append]
      rw [splitAux_cons2, if_neg h'.1]
      have := ih (c :: cur) ⟨h'.2, hl'⟩
      simp only [List.cons_append] at this
      rw [this]; simp

theorem split_join (p : List Str) (h : SepFree p) : splitKey (joinKey p) = p := by
  unfold splitKey
  induction p with
  | nil => exact absurd h (by simp [SepFree])
  | cons a as ih =>
    cases as with
    | nil => simp [joinKey, splitAux_last a [] h]
    | cons b bs =>
      obtain ⟨ha, hrest⟩ := h
      simp only [joinKey]
      rw [splitAux_inner a _ [] ha, ih hrest]; simp

theorem join_injective (p q : List Str) (hp : SepFree p) (hq : SepFree q)
    (h : joinKey p = joinKey q) : p = q := by
  rw [← split_join p hp, ← split_join q hq, h]

end Idpy.SessionDB
