import IdpyVerif.Proofs.Provider
namespace Idpy.Provider

/-! ### how `pending` evolves -/

@[simp] theorem decUsed_pending (s : St) (c : Nat) : (decUsed s c).pending = s.pending := rfl
@[simp] theorem incUsed_pending (s : St) (c : Nat) : (incUsed s c).pending = s.pending := rfl
@[simp] theorem revokeGr_pending (s : St) (g : Nat) : (revokeGr s g).pending = s.pending := rfl
@[simp] theorem setMints_pending (s : St) (i : Option Nat) (m : List Cls) : (setMints s i m).pending = s.pending := by
  unfold setMints; split <;> rfl
@[simp] theorem revokeIf_pending (s : St) (c : Bool) (i : Nat) : (revokeIf s c i).pending = s.pending := by
  unfold revokeIf; split <;> rfl
theorem foldl_revokeGr_pending (gs : List Nat) (s : St) : (gs.foldl revokeGr s).pending = s.pending := by
  induction gs generalizing s with
  | nil => rfl
  | cons g gs ih => simp only [List.foldl_cons]; rw [ih]; rfl
theorem mintAfterDec_pending (cfg : Cfg) (s : St) (g : Gr) (cls : Cls) (code : Nat) (w : Bool) :
    (mintAfterDec cfg s g cls code w).1.pending = s.pending := by
  unfold mintAfterDec
  split
  · split
    · rename_i h; rw [(mint_ok_next h).2.2.2.2]; rfl
    · rfl
  · rfl
theorem mintExtra_pending (cfg : Cfg) (s : St) (g : Gr) (cls : Cls) (b : Nat) (sc : List Str) (w : Bool) :
    (mintExtra cfg s g cls b sc w).1.pending = s.pending := by
  unfold mintExtra
  split
  · split
    · rename_i h; exact (mint_ok_next h).2.2.2.2
    · rfl
  · rfl

/-- the only steps that change `pending`: a successful parse appends, a process removes -/
theorem step_pending (cfg : Cfg) (s : St) (op : Op) :
    (step cfg s op).1.pending = s.pending ∨
    (∃ cl code rd t, op = .tokenParse cl code rd ∧ findTok s code = some t ∧ t.cls = .code ∧
        (step cfg s op).1.pending = s.pending ++ [{ client := cl, code := code, redirect := rd, parsedAt := s.now }]) ∨
    (∃ idx, op = .tokenProcess idx ∧ (step cfg s op).1.pending = s.pending.eraseIdx idx) := by
  cases op with
  | tick n => left; rfl
  | authorize u c sc r =>
    left; simp only [step]
    split
    · rfl
    split
    · rename_i h; rw [(mint_ok_next h).2.2.2.2]
    · rfl
  | tokenParse cl code rd =>
    simp only [step]
    split
    · left; rfl
    · rename_i t ht
      split
      · left; rfl
      · split
        · left; rfl
        · rename_i hcls
          split
          · left; rfl
          · split
            · left; rfl
            · right; left
              exact ⟨cl, code, rd, t, rfl, ht, by simpa using hcls, rfl⟩
  | tokenProcess idx =>
    simp only [step]
    split
    · left; rfl
    · right; right
      refine ⟨idx, rfl, ?_⟩
      split
      · rfl
      · split
        · rfl
        · split
          · rfl
          · split
            · rfl
            · split
              · rfl
              · split
                · rfl
                · rfl
              · simp [mintAfterDec_pending]
                rename_i h; exact (mint_ok_next h).2.2.2.2
  | refresh cl rt sc =>
    left; simp only [step]
    split
    · rfl
    · split
      · rfl
      · split
        · rfl
        · split
          · rfl
          · split
            · rfl
            · split
              · rfl
              · split
                · rfl
                · rfl
                · rename_i h
                  simp only [revokeIf_pending, incUsed_pending, mintExtra_pending, setMints_pending]
                  exact (mint_ok_next h).2.2.2.2
  | exchange cl subj st rt sc =>
    left; simp only [step]
    repeat (first
      | rfl
      | (rename_i h; exact (mintX_ok_next h).2.2.2.2)
      | split)
  | userinfo t => left; simp only [step]; repeat (first | rfl | split)
  | introspect c t => left; simp only [step]; repeat (first | rfl | split)
  | revokeEp c t => left; simp only [step]; repeat (first | rfl | split)
  | revokeTok t r => left; simp only [step]; repeat (first | rfl | split)
  | revokeGrant g => left; simp only [step]; repeat (first | rfl | split)
  | revokeClient u c => left; simp only [step]; split; rfl; exact foldl_revokeGr_pending _ _
  | revokeUser u => left; simp only [step]; split; rfl; exact foldl_revokeGr_pending _ _
  | logoutAll u => left; simp only [step]; split; rfl; exact foldl_revokeGr_pending _ _
  | remove g => left; simp only [step]; repeat (first | rfl | split)

/-! ### invariants of reachable states used by C02 -/

/-- every stored authorization code is single-use -/
def ClsInv (s : St) : Prop := ∀ t ∈ s.toks, CodeOk t

/-- every parsed-but-unprocessed token request names a value that can only be a code -/
def PendInv (s : St) : Prop := ∀ r ∈ s.pending, r.code < s.next ∧ ∀ t ∈ s.toks, t.id = r.code → t.cls = .code

theorem clsInv_step (cfg : Cfg) (s : St) (op : Op) (h : ClsInv s) : ClsInv (step cfg s op).1 := by
  intro t' ht'
  rcases (step_adv cfg s op).ev t' ht' with ⟨t, ht, hk⟩ | hf
  · intro hc; rw [hk.maxUsage]; exact h t ht (by rw [← hk.cls]; exact hc)
  · exact hf.2

theorem pendInv_step (cfg : Cfg) (s : St) (op : Op) (hi : Inv s) (h : PendInv s) : PendInv (step cfg s op).1 := by
  have ha := step_adv cfg s op
  -- an old request stays fine
  have old : ∀ r : Req, (r.code < s.next ∧ ∀ t ∈ s.toks, t.id = r.code → t.cls = .code) →
      (r.code < (step cfg s op).1.next ∧ ∀ t ∈ (step cfg s op).1.toks, t.id = r.code → t.cls = .code) := by
    intro r ⟨h1, h2⟩
    refine ⟨Nat.lt_of_lt_of_le h1 ha.next, ?_⟩
    intro t' ht' hid
    rcases ha.ev t' ht' with ⟨t, ht, hk⟩ | hf
    · rw [hk.cls]; exact h2 t ht (by rw [← hk.id]; exact hid)
    · omega
  intro r hr
  rcases step_pending cfg s op with hp | ⟨cl, code, rd, t, _, hft, hcls, hp⟩ | ⟨idx, _, hp⟩
  · rw [hp] at hr; exact old r (h r hr)
  · rw [hp] at hr
    rcases List.mem_append.mp hr with hr | hr
    · exact old r (h r hr)
    · simp at hr; subst hr
      apply old
      have hm := List.mem_of_find?_eq_some hft
      have hid : t.id = code := by simpa using List.find?_some hft
      refine ⟨by rw [← hid]; exact inv_lt hi hm, ?_⟩
      intro t2 ht2 hid2
      have : t2 = t := inv_uniq hi ht2 hm (by rw [hid2, hid])
      rw [this]; exact hcls
  · rw [hp] at hr
    exact old r (h r (List.mem_of_mem_eraseIdx hr))

/-- all three invariants hold in every reachable state -/
structure Reach (s : St) : Prop where
  inv : Inv s
  cls : ClsInv s
  pend : PendInv s

theorem reach_init : Reach {} := ⟨inv_init, by intro t ht; simp at ht, by intro r hr; simp at hr⟩
theorem reach_step (cfg : Cfg) (s : St) (op : Op) (h : Reach s) : Reach (step cfg s op).1 :=
  ⟨(step_adv cfg s op).inv h.inv, clsInv_step cfg s op h.cls, pendInv_step cfg s op h.inv h.pend⟩
theorem reach_run (cfg : Cfg) (ops : List Op) (s : St) (h : Reach s) : Reach (run cfg s ops).1 := by
  induction ops generalizing s with
  | nil => exact h
  | cons op ops ih => simp only [run]; exact ih _ (reach_step cfg s op h)

end Idpy.Provider
