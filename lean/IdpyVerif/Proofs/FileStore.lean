import IdpyVerif.Model.FileStore
namespace Idpy.FileStore

theorem get?_put (d : Dir) (n n' : Name) (c : Str) : get? (put d n c) n' = if n' = n then some c else get? d n' := by
  induction d with
  | nil =>
    simp only [put, get?, List.find?]
    by_cases h : n' = n
    · subst h; simp
    · have : ¬ n = n' := fun e => h e.symm
      simp [h, this]
  | cons e rest ih =>
    obtain ⟨a, b⟩ := e
    simp only [put]
    split
    · rename_i hn
      subst hn
      by_cases h : n' = a
      · subst h; simp [get?, List.find?]
      · have : ¬ a = n' := fun e => h e.symm
        simp [get?, List.find?, h, this]
    · rename_i hn
      by_cases h : a = n'
      · subst h
        have : ¬ a = n := hn
        simp [get?, List.find?, this]
      · have ih' := ih
        simp only [get?] at ih' ⊢
        simp only [List.find?, h, decide_false]
        exact ih'

theorem get?_erase (d : Dir) (n n' : Name) : get? (erase d n) n' = if n' = n then none else get? d n' := by
  induction d with
  | nil => simp [erase, get?]
  | cons e rest ih =>
    obtain ⟨a, b⟩ := e
    simp only [erase, get?] at ih ⊢
    by_cases ha : a = n
    · subst ha
      simp only [List.filter, ne_eq, not_true_eq_false, decide_false]
      rw [ih]
      by_cases h : n' = a
      · simp [h]
      · have : ¬ a = n' := fun e => h e.symm
        simp [h, List.find?, this]
    · simp only [List.filter, ne_eq, ha, not_false_eq_true, decide_true]
      by_cases h : a = n'
      · subst h
        simp [List.find?, ha]
      · simp only [List.find?, h, decide_false]
        exact ih

theorem get?_nil (n : Name) : get? [] n = none := rfl

theorem isLock_lockOf (n : Name) : isLock (lockOf n) = true := by
  unfold isLock lockOf
  rw [List.isSuffixOf_iff_suffix]
  exact List.suffix_append n dotLock

theorem ne_lockOf {n n' : Name} (h : isLock n' = false) : n' ≠ lockOf n := by
  intro e; rw [e, isLock_lockOf] at h; cases h

theorem get?_touch_ne (d : Dir) (n n' : Name) (h : n' ≠ n) : get? (touch d n) n' = get? d n' := by
  unfold touch
  split
  · rfl
  · rw [get?_put]; simp [h]

/-- lookups of non-lock names -/
def SameFiles (d d' : Dir) : Prop := ∀ n, isLock n = false → get? d' n = get? d n

theorem SameFiles.refl (d : Dir) : SameFiles d d := fun _ _ => rfl
theorem SameFiles.trans {a b c : Dir} (h1 : SameFiles a b) (h2 : SameFiles b c) : SameFiles a c :=
  fun n hn => (h2 n hn).trans (h1 n hn)

theorem readInfo_same (c : Conv) (d : Dir) (n : Name) : SameFiles d (readInfo c d n).1 := by
  intro n' hn'
  unfold readInfo
  split
  · rfl
  · exact get?_touch_ne d _ n' (ne_lockOf hn')

theorem synchLoop_same (c : Conv) (ns : List Name) (s : FS) : SameFiles s.dir (synchLoop c ns s).dir := by
  induction ns generalizing s with
  | nil => exact SameFiles.refl _
  | cons n ns ih =>
    unfold synchLoop
    split
    · exact ih s
    · have hr := readInfo_same c s.dir n
      split
      · rename_i d' v heq
        have : d' = (readInfo c s.dir n).1 := by rw [heq]
        refine SameFiles.trans (this ▸ hr) (ih _)
      · rename_i d' r _ heq
        have : d' = (readInfo c s.dir n).1 := by rw [heq]
        refine SameFiles.trans (this ▸ hr) (ih _)

theorem synch_same (c : Conv) (s : FS) : SameFiles s.dir (synch c s).dir := synchLoop_same c _ s

theorem remove_get? (s : FS) (n n' : Name) (hn' : isLock n' = false) :
    get? (remove s n).dir n' = if n' = n then none else get? s.dir n' := by
  unfold remove
  simp only
  by_cases hl : isLock n = true
  · have hne : n' ≠ n := by intro e; rw [e, hl] at hn'; cases hn'
    simp [hl, get?_erase, hne]
  · simp only [hl, Bool.false_eq_true, if_false]
    by_cases hex : (get? s.dir n).isSome = true
    · simp only [hex, if_true, get?_erase]
      have := ne_lockOf (n := n) hn'
      simp [this]
    · simp only [hex, Bool.false_eq_true, if_false]
      by_cases e : n' = n
      · subst e
        simp at hex
        simp [hex]
      · simp [e]

theorem foldl_remove_get? (L : List Name) (s : FS) (n' : Name) (hn' : isLock n' = false) :
    get? (L.foldl remove s).dir n' = if n' ∈ L then none else get? s.dir n' := by
  induction L generalizing s with
  | nil => simp
  | cons a L ih =>
    simp only [List.foldl_cons]
    rw [ih, remove_get? s a n' hn']
    by_cases h1 : n' ∈ L
    · simp [h1]
    · by_cases h2 : n' = a
      · simp [h2]
      · simp [h1, h2]

theorem get?_none_of_not_mem (d : Dir) (n : Name) (h : n ∉ d.map (·.1)) : get? d n = none := by
  unfold get?
  rw [Option.map_eq_none_iff, List.find?_eq_none]
  intro e he
  simp only [decide_eq_true_eq]
  intro heq
  exact h (List.mem_map.mpr ⟨e, he, heq⟩)



/-- keys the dictionary interface handles: the converted key is an acceptable file name that is not
    a lock-file name, and the conversion is invertible on it -/
def Good (c : Conv) (k : Str) : Prop :=
  badName (c.ser k) = false ∧ isLock (c.ser k) = false ∧ c.deser (c.ser k) = k

def OpGood (c : Conv) : Op → Prop
  | .set k _ => Good c k
  | .get k => Good c k
  | .del k => Good c k
  | .contains k => Good c k
  | _ => True

/-- the directory represents the dictionary `m`: a non-lock file exists exactly for the converted
    keys of `m`, holding the converted value -/
def Rep (c : Conv) (d : Dir) (m : Spec) : Prop :=
  ∀ n, isLock n = false → get? d n = if c.ser (c.deser n) = n then (m (c.deser n)).map c.vser else none

theorem rep_init (c : Conv) : Rep c [] (fun _ => none) := by
  intro n _; simp [get?_nil]

theorem rep_same (c : Conv) (d d' : Dir) (m : Spec) (h : Rep c d m) (hs : SameFiles d d') : Rep c d' m :=
  fun n hn => (hs n hn).trans (h n hn)

theorem rep_step (c : Conv) (s : FS) (m : Spec) (op : Op) (h : Rep c s.dir m) (hg : OpGood c op) :
    Rep c (step c s op).1.dir (specStep m op) := by
  cases op with
  | set k v =>
    obtain ⟨hb, hl, hd⟩ := hg
    intro n hn
    simp only [step, hb, Bool.false_eq_true, if_false, specStep]
    rw [get?_put]
    by_cases e : n = c.ser k
    · subst e; simp [hd]
    · rw [if_neg e, get?_touch_ne _ _ _ (ne_lockOf hn), h n hn]
      by_cases hc : c.ser (c.deser n) = n
      · have : c.deser n ≠ k := by intro e'; rw [e'] at hc; exact e hc.symm
        simp [hc, this]
      · simp [hc]
  | get k =>
    simp only [step, specStep]
    split
    · exact h
    · split
      · exact h
      · have hr := readInfo_same c s.dir (c.ser k)
        split
        · rename_i d' v heq
          have : d' = (readInfo c s.dir (c.ser k)).1 := by rw [heq]
          exact rep_same c _ _ m h (this ▸ hr)
        · rename_i d' r _ heq
          have : d' = (readInfo c s.dir (c.ser k)).1 := by rw [heq]
          exact rep_same c _ _ m h (this ▸ hr)
  | del k =>
    obtain ⟨hb, hl, hd⟩ := hg
    intro n hn
    simp only [step, specStep]
    rw [remove_get? s _ n hn, h n hn]
    by_cases e : n = c.ser k
    · subst e; simp [hd]
    · rw [if_neg e]
      by_cases hc : c.ser (c.deser n) = n
      · have : c.deser n ≠ k := by intro e'; rw [e'] at hc; exact e hc.symm
        simp [hc, this]
      · simp [hc]
  | contains k => exact h
  | keys => exact rep_same c _ _ m h (synch_same c s)
  | len => exact h
  | clear =>
    intro n hn
    simp only [step, specStep]
    rw [foldl_remove_get? _ s n hn]
    by_cases hm : n ∈ s.dir.map (·.1)
    · simp [hm]
    · rw [if_neg hm, get?_none_of_not_mem _ _ hm]; simp
  | reopen =>
    simp only [step, specStep]
    exact rep_same c _ _ m h (synch_same c _)

theorem rep_run (c : Conv) (ops : List Op) (s : FS) (m : Spec) (h : Rep c s.dir m) (hg : ∀ op ∈ ops, OpGood c op) :
    Rep c (run c s ops).dir (specRun m ops) := by
  induction ops generalizing s m with
  | nil => exact h
  | cons op ops ih =>
    simp only [run, specRun]
    exact ih _ _ (rep_step c s m op h (hg op (by simp))) (fun o ho => hg o (by simp [ho]))



theorem readInfo_snd (c : Conv) (d : Dir) (n : Name) :
    (readInfo c d n).2 = (get? d n).map (fun content => c.vdeser (LV.strip content)) := by
  unfold readInfo; split <;> simp [*]

/-- what the instance believes about the files it has seen is what the files say -/
def Coh (c : Conv) (s : FS) : Prop :=
  (∀ n, n ∈ s.known → isLock n = false ∧ ∃ content v, get? s.dir n = some content ∧
      c.vdeser (LV.strip content) = some v ∧ get? s.storage n = some v) ∧
  (∀ n, (get? s.storage n).isSome → n ∈ s.known)

theorem coh_fresh (c : Conv) (d : Dir) : Coh c { dir := d, storage := [], known := [] } :=
  ⟨fun n h => by simp at h, fun n h => by simp [get?_nil] at h⟩

theorem get?_mem_names (d : Dir) (n : Name) (content : Str) (h : get? d n = some content) : n ∈ d.map (·.1) := by
  cases hm : decide (n ∈ d.map (·.1)) with
  | true => simpa using hm
  | false =>
    have : n ∉ d.map (·.1) := by simpa using hm
    rw [get?_none_of_not_mem d n this] at h; cases h

theorem synchLoop_coh (c : Conv) (ns : List Name) (s : FS) (h : Coh c s) : Coh c (synchLoop c ns s) := by
  induction ns generalizing s with
  | nil => exact h
  | cons n ns ih =>
    unfold synchLoop
    split
    · exact ih s h
    · rename_i hcond
      have hl : isLock n = false := by
        cases hx : isLock n with
        | false => rfl
        | true => exact absurd (Or.inl hx) hcond
      have hk : n ∉ s.known := by
        intro hm; exact hcond (Or.inr (by simpa using hm))
      have hs := readInfo_same c s.dir n
      have h2 := readInfo_snd c s.dir n
      split
      · rename_i d' v heq
        have hd : d' = (readInfo c s.dir n).1 := by rw [heq]
        have hv : (readInfo c s.dir n).2 = some (some v) := by rw [heq]
        apply ih
        constructor
        · intro n0 hn0
          simp only [List.mem_cons] at hn0
          rcases hn0 with e | hn0
          · subst e
            refine ⟨hl, ?_⟩
            rw [h2] at hv
            cases hg : get? s.dir n0 with
            | none => rw [hg] at hv; cases hv
            | some content =>
              rw [hg] at hv
              simp only [Option.map_some, Option.some.injEq] at hv
              refine ⟨content, v, ?_, hv, ?_⟩
              · rw [hd, hs n0 hl]; exact hg
              · simp [get?_put]
          · obtain ⟨hl0, content, v0, hg, hv0, hst⟩ := h.1 n0 hn0
            refine ⟨hl0, content, v0, ?_, hv0, ?_⟩
            · rw [hd, hs n0 hl0]; exact hg
            · have : n0 ≠ n := by intro e; rw [e] at hn0; exact hk hn0
              simp [get?_put, this, hst]
        · intro n0 hn0
          simp only [get?_put] at hn0
          by_cases e : n0 = n
          · simp [e]
          · simp only [e, if_false] at hn0
            exact List.mem_cons_of_mem _ (h.2 n0 hn0)
      · rename_i d' r _ heq
        have hd : d' = (readInfo c s.dir n).1 := by rw [heq]
        apply ih
        constructor
        · intro n0 hn0
          obtain ⟨hl0, content, v0, hg, hv0, hst⟩ := h.1 n0 hn0
          exact ⟨hl0, content, v0, by simp only; rw [hd, hs n0 hl0]; exact hg, hv0, hst⟩
        · exact h.2

theorem synchLoop_known_mono (c : Conv) (ns : List Name) (s : FS) (n : Name) (h : n ∈ s.known) :
    n ∈ (synchLoop c ns s).known := by
  induction ns generalizing s with
  | nil => exact h
  | cons a ns ih =>
    unfold synchLoop
    split
    · exact ih s h
    · split
      · exact ih _ (List.mem_cons_of_mem _ h)
      · exact ih _ h

theorem synchLoop_complete (c : Conv) (ns : List Name) (s : FS) (n : Name) (content v : Str)
    (hn : n ∈ ns) (hl : isLock n = false) (hg : get? s.dir n = some content)
    (hv : c.vdeser (LV.strip content) = some v) : n ∈ (synchLoop c ns s).known := by
  induction ns generalizing s with
  | nil => cases hn
  | cons a ns ih =>
    unfold synchLoop
    simp only [List.mem_cons] at hn
    split
    · rename_i hcond
      rcases hn with e | hn
      · subst e
        rcases hcond with hx | hx
        · rw [hx] at hl; cases hl
        · exact synchLoop_known_mono c ns s n (by simpa using hx)
      · exact ih s hn hg
    · have hs := readInfo_same c s.dir a
      have h2 := readInfo_snd c s.dir a
      split
      · rename_i d' v' heq
        have hd : d' = (readInfo c s.dir a).1 := by rw [heq]
        rcases hn with e | hn
        · exact synchLoop_known_mono c ns _ n (by simp [e])
        · exact ih _ hn (by simp only; rw [hd, hs n hl]; exact hg)
      · rename_i d' r hne heq
        have hd : d' = (readInfo c s.dir a).1 := by rw [heq]
        have hr : r = (readInfo c s.dir a).2 := by rw [heq]
        rcases hn with e | hn
        · subst e
          exfalso
          rw [h2, hg] at hr
          simp only [Option.map_some, hv] at hr
          exact hne v (by rw [hr])
        · exact ih _ hn (by simp only; rw [hd, hs n hl]; exact hg)

end Idpy.FileStore
