import IdpyVerif.Model.ImpExp
namespace Idpy.ImpExp

theorem lookup_dump (exported : List Attr) (o : Obj) (a : Attr) :
    (dump exported o).lookup a = if a ∈ exported ∧ o a ≠ 0 then some (o a) else none := by
  induction exported with
  | nil => simp [dump]
  | cons x xs ih =>
    unfold dump at ih ⊢
    simp only [List.filterMap_cons]
    by_cases hx : o x = 0
    · simp only [hx, if_true]
      rw [ih]
      by_cases e : a = x
      · subst e; simp [hx]
      · simp [e]
    · simp only [hx, if_false, List.lookup_cons]
      by_cases e : a = x
      · subst e; simp [hx]
      · have : (a == x) = false := by simpa using e
        simp only [this]
        rw [ih]; simp [e]

theorem load_dump_attr (exported : List Attr) (fresh o : Obj) (a : Attr) (h : Survives exported fresh o a) :
    load fresh (dump exported o) a = o a := by
  unfold load
  rw [lookup_dump]
  rcases h with ⟨hm, h⟩ | ⟨hm, h⟩
  · by_cases h0 : o a = 0
    · rcases h with h | h
      · exact absurd h0 h
      · simp [h0, h]
    · simp [hm, h0]
  · simp [hm, h]

/-- **restore is exact**: when every attribute survives, the restored object IS the original -/
theorem load_dump_id (exported : List Attr) (fresh o : Obj) (h : ∀ a, Survives exported fresh o a) :
    load fresh (dump exported o) = o := funext fun a => load_dump_attr exported fresh o a (h a)

/-- re-exporting a restored object gives the same export -/
theorem filterMap_congr' {α β : Type} (f g : α → Option β) (l : List α) (h : ∀ a ∈ l, f a = g a) :
    l.filterMap f = l.filterMap g := by
  induction l with
  | nil => rfl
  | cons x xs ih =>
    simp only [List.filterMap_cons]
    rw [h x (by simp), ih (fun a ha => h a (by simp [ha]))]

theorem dump_load_dump (exported : List Attr) (fresh o : Obj) (h : ∀ a ∈ exported, Survives exported fresh o a) :
    dump exported (load fresh (dump exported o)) = dump exported o := by
  have key : ∀ a ∈ exported, load fresh (dump exported o) a = o a := fun a ha => load_dump_attr exported fresh o a (h a ha)
  generalize load fresh (dump exported o) = r at key
  unfold dump
  apply filterMap_congr'
  intro a ha
  rw [key a ha]

end Idpy.ImpExp
