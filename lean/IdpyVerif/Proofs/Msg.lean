import IdpyVerif.Model.Msg
import IdpyVerif.Proofs.UrlEnc
import IdpyVerif.Proofs.LV
namespace Idpy.Msg
open Idpy.UrlEnc

theorem splitSp_joinSp (l : List Bytes) (hne : l ≠ []) (h : ∀ a ∈ l, sp ∉ a) : splitSp (joinSp l) = l := by
  unfold splitSp
  induction l with
  | nil => exact absurd rfl hne
  | cons a as ih =>
    cases as with
    | nil => simp [joinSp, splitAll_no sp a (h a (by simp))]
    | cons b bs =>
      simp only [joinSp]
      rw [splitAll_field sp a _ (h a (by simp)), ih (by simp) (fun x hx => h x (by simp [hx]))]

/-- per-kind validity, written from the wire formats -/
def Valid : Kind → Val → Prop
  | .str, .str s => s ≠ [] ∧ AllBytes s
  | .int, .int _ => True
  | .bool, .bool _ => True
  | .listStr, .strs l => l ≠ [] ∧ l ≠ [[]] ∧ ∀ a ∈ l, AllBytes a
  | .spSep, .strs l => l ≠ [] ∧ l ≠ [[]] ∧ (∀ a ∈ l, sp ∉ a) ∧ ∀ a ∈ l, AllBytes a
  | _, _ => False

/-- extra guard for the form encoding of `list_serializer` parameters: elements are joined
    with a space there too (F-C10-a) -/
def UrlValid : Kind → Val → Prop
  | .listStr, .strs l => ∀ a ∈ l, sp ∉ a
  | _, _ => True

theorem joinSp_ne_nil (l : List Bytes) (h1 : l ≠ []) (h2 : l ≠ [[]]) : joinSp l ≠ [] := by
  match l with
  | [] => exact absurd rfl h1
  | [a] => simp only [joinSp]; intro h; subst h; exact h2 rfl
  | a :: b :: rest => simp [joinSp]

theorem dict_roundtrip_val (k : Kind) (v : Val) (h : Valid k v) : deserDict k (serDict k v) = some (some v) := by
  cases k <;> cases v <;> simp only [Valid] at h
  · rename_i s
    obtain ⟨hs, _⟩ := h
    cases s with
    | nil => exact absurd rfl hs
    | cons c cs => simp [serDict, deserDict, blank, addValue]
  · simp [serDict, deserDict, blank, addValue]
  · simp [serDict, deserDict, blank, addValue]
  · rename_i l
    obtain ⟨h1, h2, _⟩ := h
    match l, h1, h2 with
    | [a], _, h2 =>
      have : a ≠ [] := fun e => h2 (by rw [e])
      cases a with
      | nil => exact absurd rfl this
      | cons c cs => simp [serDict, deserDict, blank, addValue]
    | a :: b :: rest, _, _ => simp [serDict, deserDict, blank, addValue]
  · rename_i l
    obtain ⟨h1, h2, h3, _⟩ := h
    have hj := joinSp_ne_nil l h1 h2
    simp only [serDict]
    cases hjs : joinSp l with
    | nil => exact absurd hjs hj
    | cons c cs =>
      simp only [deserDict, blank, addValue]
      simp only [Bool.false_eq_true, if_false]
      rw [← hjs, splitSp_joinSp l h1 h3]

theorem decimal_ne_nil (n : Nat) : decimal n ≠ [] := (LV.digits_spec n).2.1
theorem decimal_bytes (n : Nat) : AllBytes (decimal n) := by
  intro b hb
  have := ((LV.digits_spec n).1 b hb).1
  rw [LV.isDig_eq] at this
  simp only [decide_eq_true_eq] at this; omega

theorem joinSp_bytes (l : List Bytes) (h : ∀ a ∈ l, AllBytes a) : AllBytes (joinSp l) := by
  induction l with
  | nil => intro b hb; simp [joinSp] at hb
  | cons a as ih =>
    cases as with
    | nil => simpa [joinSp] using h a (by simp)
    | cons c cs =>
      intro b hb
      simp only [joinSp, List.mem_append, List.mem_cons] at hb
      rcases hb with hb | hb | hb
      · exact h a (by simp) b hb
      · rw [hb, sp_eq]; omega
      · exact ih (fun x hx => h x (by simp [hx])) b (by simpa [joinSp] using hb)

/-- form encoding of one valid value: a non-empty byte text that deserialises to the textual
    rendering of the value -/
theorem url_roundtrip_val (k : Kind) (v : Val) (h : Valid k v) (hu : UrlValid k v) :
    ∃ t, serUrl k v = some t ∧ t ≠ [] ∧ AllBytes t ∧ deserUrl k t = textual k v := by
  cases k <;> cases v <;> simp only [Valid] at h
  · rename_i s; exact ⟨s, rfl, h.1, h.2, rfl⟩
  · rename_i n; exact ⟨decimal n, rfl, decimal_ne_nil n, decimal_bytes n, rfl⟩
  · rename_i b
    cases b
    · exact ⟨falseTxt, rfl, by simp [falseTxt], by intro b hb; simp [falseTxt] at hb; omega, rfl⟩
    · exact ⟨trueTxt, rfl, by simp [trueTxt], by intro b hb; simp [trueTxt] at hb; omega, rfl⟩
  · rename_i l
    obtain ⟨h1, h2, h3⟩ := h
    refine ⟨joinSp l, rfl, joinSp_ne_nil l h1 h2, joinSp_bytes l h3, ?_⟩
    simp only [deserUrl, textual]
    rw [splitSp_joinSp l h1 hu]
  · rename_i l
    obtain ⟨h1, h2, h3, h4⟩ := h
    refine ⟨joinSp l, rfl, joinSp_ne_nil l h1 h2, joinSp_bytes l h4, ?_⟩
    simp only [deserUrl, textual]
    rw [splitSp_joinSp l h1 h3]

/-! message level -/

def MsgValid (kindOf : Bytes → Kind) (m : Msg) : Prop := ∀ p ∈ m, Valid (kindOf p.1) p.2
def MsgUrlValid (kindOf : Bytes → Kind) (m : Msg) : Prop :=
  (∀ p ∈ m, UrlValid (kindOf p.1) p.2 ∧ AllBytes p.1) ∧ (m.map (·.1)).Nodup

theorem dict_roundtrip (kindOf : Bytes → Kind) (m : Msg) (h : MsgValid kindOf m) :
    fromDict kindOf (toDict kindOf m) = some m := by
  induction m with
  | nil => rfl
  | cons p ps ih =>
    obtain ⟨k, v⟩ := p
    simp only [toDict, List.map_cons, fromDict]
    have h1 := dict_roundtrip_val (kindOf k) v (h (k, v) (by simp))
    have h2 := ih (fun x hx => h x (by simp [hx]))
    simp only [toDict] at h2
    rw [h1, h2]

theorem toUrlPairs_spec (kindOf : Bytes → Kind) (m : Msg) (h : MsgValid kindOf m) (hu : MsgUrlValid kindOf m) :
    ∃ ps, toUrlPairs kindOf m = some ps ∧ PairsOk ps ∧ ps.map (·.1) = m.map (·.1) ∧
      (∀ p ∈ ps, p.2 ≠ []) ∧
      ps.map (fun (k, t) => (k, deserUrl (kindOf k) t)) = m.map (fun (k, v) => (k, textual (kindOf k) v)) := by
  induction m with
  | nil => exact ⟨[], rfl, by intro p hp; simp at hp, rfl, by intro p hp; simp at hp, rfl⟩
  | cons p ps ih =>
    obtain ⟨k, v⟩ := p
    obtain ⟨t, ht, hne, hb, hd⟩ := url_roundtrip_val (kindOf k) v (h (k, v) (by simp)) (hu.1 (k, v) (by simp)).1
    have hnd : (ps.map (·.1)).Nodup := by
      have := hu.2; simp only [List.map_cons, List.nodup_cons] at this; exact this.2
    obtain ⟨r, hr, hok, hkeys, hnb, hmap⟩ := ih (fun x hx => h x (by simp [hx])) ⟨fun x hx => hu.1 x (by simp [hx]), hnd⟩
    refine ⟨(k, t) :: r, by simp [toUrlPairs, ht, hr], ?_, by simp [hkeys], ?_, by simp [hd, hmap]⟩
    · intro q hq
      rcases List.mem_cons.mp hq with rfl | hq
      · exact ⟨(hu.1 (k, v) (by simp)).2, hb⟩
      · exact hok q hq
    · intro q hq
      rcases List.mem_cons.mp hq with rfl | hq
      · exact hne
      · exact hnb q hq

theorem url_roundtrip (kindOf : Bytes → Kind) (m : Msg) (h : MsgValid kindOf m) (hu : MsgUrlValid kindOf m) :
    ∃ qs, toUrl kindOf m = some qs ∧
      fromUrl kindOf qs = some (m.map (fun (k, v) => (k, textual (kindOf k) v))) := by
  obtain ⟨ps, hps, hok, hkeys, hnb, hmap⟩ := toUrlPairs_spec kindOf m h hu
  refine ⟨urlencode ps, by simp [toUrl, hps], ?_⟩
  unfold fromUrl
  have hf : parseQsl false (urlencode ps) = ps := by
    rw [parseQsl_urlencode false ps hok]
    apply List.filter_eq_self.mpr
    intro p hp
    simp [keepPair, hnb p hp]
  simp only [hf, hkeys, hu.2, if_true, hmap]

end Idpy.Msg
