/-
Revocation and deletion in the session tree (`SessionManager._revoke_tree`, `Database.delete_sub_tree`
over the flat database): each reaches every node below the starting node through `subordinate` links,
however deep, and touches nothing else; revocation never changes the shape of the tree.
-/
import IdpyVerif.Proofs.SessionDB
namespace Idpy.SessionDB

/-- `x` is the node `k` or below it through `subordinate` links of inner nodes -/
inductive Reach (db : DB) : Str → Str → Prop
  | self (k : Str) : Reach db k k
  | down {k s x : Str} {n : Node} : lookup db k = some n → isInner n = true → s ∈ n.subs → Reach db s x → Reach db k x

/-- same node up to the revocation flag, which is only ever set -/
structure NodeLe (x y : Node) : Prop where
  kind : y.kind = x.kind
  id : y.id = x.id
  subs : y.subs = x.subs
  revoked : x.revoked = true → y.revoked = true

theorem NodeLe.refl (x : Node) : NodeLe x x := ⟨rfl, rfl, rfl, fun h => h⟩
theorem NodeLe.trans {x y z : Node} (h1 : NodeLe x y) (h2 : NodeLe y z) : NodeLe x z :=
  ⟨h2.kind.trans h1.kind, h2.id.trans h1.id, h2.subs.trans h1.subs, fun h => h2.revoked (h1.revoked h)⟩
theorem NodeLe.inner {x y : Node} (h : NodeLe x y) : isInner y = isInner x := by
  unfold isInner; rw [h.kind]

/-- same tree: same keys, kinds, ids and links; flags only set -/
def Shape (a b : DB) : Prop :=
  ∀ k, (lookup a k = none ∧ lookup b k = none) ∨ ∃ x y, lookup a k = some x ∧ lookup b k = some y ∧ NodeLe x y

theorem Shape.refl (a : DB) : Shape a a := by
  intro k
  cases h : lookup a k with
  | none => exact Or.inl ⟨rfl, rfl⟩
  | some x => exact Or.inr ⟨x, x, rfl, rfl, NodeLe.refl x⟩

theorem Shape.trans {a b c : DB} (h1 : Shape a b) (h2 : Shape b c) : Shape a c := by
  intro k
  rcases h1 k with ⟨ha, hb⟩ | ⟨x, y, ha, hb, hxy⟩
  · rcases h2 k with ⟨_, hc⟩ | ⟨y', z, hb', _, _⟩
    · exact Or.inl ⟨ha, hc⟩
    · rw [hb] at hb'; cases hb'
  · rcases h2 k with ⟨hb', _⟩ | ⟨y', z, hb', hc, hyz⟩
    · rw [hb] at hb'; cases hb'
    · rw [hb] at hb'; cases hb'
      exact Or.inr ⟨x, z, ha, hc, hxy.trans hyz⟩

theorem shape_put_revoked (db : DB) (key : Str) (n : Node) (h : lookup db key = some n) :
    Shape db (put db key { n with revoked := true }) := by
  intro k
  by_cases hk : k = key
  · subst hk
    exact Or.inr ⟨n, _, h, lookup_put_eq _ _ _, ⟨rfl, rfl, rfl, fun _ => rfl⟩⟩
  · rw [lookup_put_ne _ _ _ _ hk]
    exact Shape.refl db k

theorem reach_shape {a b : DB} (h : Shape a b) {k x : Str} (hr : Reach a k x) : Reach b k x := by
  induction hr with
  | self k => exact Reach.self k
  | @down k s x n hl hin hs _ ih =>
    rcases h k with ⟨ha, _⟩ | ⟨x', y, ha, hb, hxy⟩
    · rw [hl] at ha; cases ha
    · rw [hl] at ha; cases ha
      exact Reach.down hb (by rw [hxy.inner]; exact hin) (by rw [hxy.subs]; exact hs) ih

theorem reach_shape_rev {a b : DB} (h : Shape a b) {k x : Str} (hr : Reach b k x) : Reach a k x := by
  induction hr with
  | self k => exact Reach.self k
  | @down k s x n hl hin hs _ ih =>
    rcases h k with ⟨_, hb⟩ | ⟨x', y, ha, hb, hxy⟩
    · rw [hl] at hb; cases hb
    · rw [hl] at hb; cases hb
      exact Reach.down ha (by rw [← hxy.inner]; exact hin) (by rw [← hxy.subs]; exact hs) ih

/-- the loop over the subordinates, as the model writes it -/
def revFold (fuel : Nat) (subs : List Str) (acc : Option DB) : Option DB :=
  subs.foldl (fun acc s => match acc with
    | none => none
    | some d => revokeTree fuel d s) acc

theorem revFold_none (fuel : Nat) (subs : List Str) : revFold fuel subs none = none := by
  induction subs with
  | nil => rfl
  | cons s rest ih => simpa [revFold] using ih

theorem revFold_cons (fuel : Nat) (s : Str) (rest : List Str) (d : DB) :
    revFold fuel (s :: rest) (some d) = revFold fuel rest (revokeTree fuel d s) := rfl

theorem revokeTree_succ (fuel : Nat) (db : DB) (key : Str) :
    revokeTree (fuel+1) db key =
      match lookup db key with
      | none => none
      | some n =>
        if isInner n then revFold fuel n.subs (some (put db key { n with revoked := true }))
        else some (put db key { n with revoked := true }) := rfl

/-- revocation keeps the shape of the tree -/
theorem shape_revokeTree (fuel : Nat) : ∀ (db : DB) (key : Str) (d : DB), revokeTree fuel db key = some d → Shape db d := by
  induction fuel with
  | zero => intro db key d h; simp [revokeTree] at h
  | succ f ih =>
    intro db key d h
    rw [revokeTree_succ] at h
    cases hl : lookup db key with
    | none => rw [hl] at h; cases h
    | some n =>
      rw [hl] at h
      simp only at h
      have h1 := shape_put_revoked db key n hl
      by_cases hin : isInner n = true
      · rw [if_pos hin] at h
        have fold : ∀ (subs : List Str) (acc : DB), revFold f subs (some acc) = some d → Shape acc d := by
          intro subs
          induction subs with
          | nil => intro acc hh; simp [revFold] at hh; subst hh; exact Shape.refl _
          | cons s rest ihs =>
            intro acc hh
            rw [revFold_cons] at hh
            cases hs : revokeTree f acc s with
            | none => rw [hs, revFold_none] at hh; cases hh
            | some acc' =>
              rw [hs] at hh
              exact (ih acc s acc' hs).trans (ihs acc' hh)
        exact h1.trans (fold _ _ h)
      · rw [if_neg hin] at h
        cases h; exact h1

theorem shape_revFold (f : Nat) (subs : List Str) (acc d : DB) (h : revFold f subs (some acc) = some d) : Shape acc d := by
  induction subs generalizing acc with
  | nil => simp [revFold] at h; subst h; exact Shape.refl _
  | cons s rest ihs =>
    rw [revFold_cons] at h
    cases hs : revokeTree f acc s with
    | none => rw [hs, revFold_none] at h; cases h
    | some acc' =>
      rw [hs] at h
      exact (shape_revokeTree f acc s acc' hs).trans (ihs acc' h)

/-- **coverage**: when the revocation completes, every node at or below the starting node is revoked -/
theorem revokeTree_covers (fuel : Nat) : ∀ (db : DB) (key : Str) (d : DB), revokeTree fuel db key = some d →
    ∀ x, Reach db key x → ∃ y, lookup d x = some y ∧ y.revoked = true := by
  induction fuel with
  | zero => intro db key d h; simp [revokeTree] at h
  | succ f ih =>
    intro db key d h x hr
    have hsh := shape_revokeTree (f+1) db key d h
    rw [revokeTree_succ] at h
    cases hl : lookup db key with
    | none => rw [hl] at h; cases h
    | some n =>
      rw [hl] at h
      simp only at h
      have h1 := shape_put_revoked db key n hl
      -- the starting node itself
      have hself : ∃ y, lookup d key = some y ∧ y.revoked = true := by
        have hd1 : Shape (put db key { n with revoked := true }) d := by
          by_cases hin : isInner n = true
          · rw [if_pos hin] at h; exact shape_revFold f _ _ _ h
          · rw [if_neg hin] at h; cases h; exact Shape.refl _
        rcases hd1 key with ⟨ha, _⟩ | ⟨x', y, ha, hb, hxy⟩
        · rw [lookup_put_eq] at ha; cases ha
        · rw [lookup_put_eq] at ha; cases ha
          exact ⟨y, hb, hxy.revoked rfl⟩
      cases hr with
      | self => exact hself
      | @down _ s _ n' hl' hin hs hrs =>
        rw [hl] at hl'; cases hl'
        rw [if_pos hin] at h
        have fold : ∀ (subs : List Str) (acc : DB), revFold f subs (some acc) = some d → Shape db acc →
            s ∈ subs → ∃ y, lookup d x = some y ∧ y.revoked = true := by
          intro subs
          induction subs with
          | nil => intro acc _ _ hm; cases hm
          | cons s0 rest ihs =>
            intro acc hh hsa hm
            rw [revFold_cons] at hh
            cases hs0 : revokeTree f acc s0 with
            | none => rw [hs0, revFold_none] at hh; cases hh
            | some acc' =>
              rw [hs0] at hh
              rcases List.mem_cons.mp hm with rfl | hm'
              · obtain ⟨y, hy, hyr⟩ := ih acc s acc' hs0 x (reach_shape hsa hrs)
                rcases shape_revFold f rest acc' d hh x with ⟨ha, _⟩ | ⟨x', z, ha, hb, hxz⟩
                · rw [hy] at ha; cases ha
                · rw [hy] at ha; cases ha
                  exact ⟨z, hb, hxz.revoked hyr⟩
              · exact ihs acc' hh (hsa.trans (shape_revokeTree f acc s0 acc' hs0)) hm'
        exact fold _ _ h h1 hs

/-- **locality**: a node that is not at or below the starting node is exactly as it was -/
theorem revokeTree_local (fuel : Nat) : ∀ (db : DB) (key : Str) (d : DB), revokeTree fuel db key = some d →
    ∀ x, ¬ Reach db key x → lookup d x = lookup db x := by
  induction fuel with
  | zero => intro db key d h; simp [revokeTree] at h
  | succ f ih =>
    intro db key d h x hnr
    rw [revokeTree_succ] at h
    cases hl : lookup db key with
    | none => rw [hl] at h; cases h
    | some n =>
      rw [hl] at h
      simp only at h
      have h1 := shape_put_revoked db key n hl
      have hxk : x ≠ key := fun e => hnr (e ▸ Reach.self _)
      have hput : lookup (put db key { n with revoked := true }) x = lookup db x := lookup_put_ne _ _ _ _ hxk
      by_cases hin : isInner n = true
      · rw [if_pos hin] at h
        have hsubs : ∀ s ∈ n.subs, ¬ Reach db s x := fun s hs hr => hnr (Reach.down hl hin hs hr)
        have fold : ∀ (subs : List Str) (acc : DB), revFold f subs (some acc) = some d → Shape db acc →
            (∀ s ∈ subs, ¬ Reach db s x) → lookup d x = lookup acc x := by
          intro subs
          induction subs with
          | nil => intro acc hh _ _; simp [revFold] at hh; subst hh; rfl
          | cons s0 rest ihs =>
            intro acc hh hsa hno
            rw [revFold_cons] at hh
            cases hs0 : revokeTree f acc s0 with
            | none => rw [hs0, revFold_none] at hh; cases hh
            | some acc' =>
              rw [hs0] at hh
              have hstep : lookup acc' x = lookup acc x :=
                ih acc s0 acc' hs0 x (fun hr => hno s0 (List.mem_cons_self) (reach_shape_rev hsa hr))
              rw [ihs acc' hh (hsa.trans (shape_revokeTree f acc s0 acc' hs0)) (fun s hs => hno s (List.mem_cons_of_mem _ hs)), hstep]
        rw [fold _ _ h h1 hsubs, hput]
      · rw [if_neg hin] at h
        cases h; exact hput

/-! ### deletion of a subtree (`Database.delete_sub_tree`) -/

/-- `a` holds nothing that `b` does not hold under the same key -/
def Sub (a b : DB) : Prop := ∀ k n, lookup a k = some n → lookup b k = some n

theorem Sub.refl (a : DB) : Sub a a := fun _ _ h => h
theorem Sub.trans {a b c : DB} (h1 : Sub a b) (h2 : Sub b c) : Sub a c := fun k n h => h2 k n (h1 k n h)
theorem Sub.none {a b : DB} (h : Sub a b) {k : Str} (hb : lookup b k = none) : lookup a k = none := by
  cases ha : lookup a k with
  | none => rfl
  | some n => rw [h k n ha] at hb; cases hb

theorem sub_del (d : DB) (k : Str) : Sub (del d k) d := by
  intro x n h
  by_cases e : x = k
  · subst e; rw [lookup_del_eq] at h; cases h
  · rwa [lookup_del_ne _ _ _ e] at h

/-- the loop over the subordinates, as the model writes it -/
def delFold (fuel : Nat) (subs : List Str) (acc : Option DB) : Option DB :=
  subs.foldl (fun acc s => match acc with
    | none => none
    | some d => deleteSubTree fuel d s) acc

theorem delFold_none (fuel : Nat) (subs : List Str) : delFold fuel subs none = none := by
  induction subs with
  | nil => rfl
  | cons s rest ih => simpa [delFold] using ih

theorem delFold_cons (fuel : Nat) (s : Str) (rest : List Str) (d : DB) :
    delFold fuel (s :: rest) (some d) = delFold fuel rest (deleteSubTree fuel d s) := rfl

theorem deleteSubTree_succ (fuel : Nat) (db : DB) (key : Str) :
    deleteSubTree (fuel+1) db key =
      match lookup db key with
      | none => none
      | some n => ((if isInner n then delFold fuel n.subs (some db) else some db)).map (fun d => del d key) := rfl

/-- deletion only removes -/
theorem sub_deleteSubTree (fuel : Nat) : ∀ (db : DB) (key : Str) (d : DB), deleteSubTree fuel db key = some d → Sub d db := by
  induction fuel with
  | zero => intro db key d h; simp [deleteSubTree] at h
  | succ f ih =>
    intro db key d h
    rw [deleteSubTree_succ] at h
    cases hl : lookup db key with
    | none => rw [hl] at h; cases h
    | some n =>
      rw [hl] at h
      simp only [Option.map_eq_some_iff] at h
      obtain ⟨d0, hd0, rfl⟩ := h
      refine (sub_del d0 key).trans ?_
      by_cases hin : isInner n = true
      · rw [if_pos hin] at hd0
        have fold : ∀ (subs : List Str) (acc : DB), delFold f subs (some acc) = some d0 → Sub d0 acc := by
          intro subs
          induction subs with
          | nil => intro acc hh; simp [delFold] at hh; subst hh; exact Sub.refl _
          | cons s rest ihs =>
            intro acc hh
            rw [delFold_cons] at hh
            cases hs : deleteSubTree f acc s with
            | none => rw [hs, delFold_none] at hh; cases hh
            | some acc' => rw [hs] at hh; exact (ihs acc' hh).trans (ih acc s acc' hs)
        exact fold _ _ hd0
      · rw [if_neg hin] at hd0
        cases hd0; exact Sub.refl _

theorem sub_delFold (f : Nat) (subs : List Str) (acc d : DB) (h : delFold f subs (some acc) = some d) : Sub d acc := by
  induction subs generalizing acc with
  | nil => simp [delFold] at h; subst h; exact Sub.refl _
  | cons s rest ihs =>
    rw [delFold_cons] at h
    cases hs : deleteSubTree f acc s with
    | none => rw [hs, delFold_none] at h; cases h
    | some acc' => rw [hs] at h; exact (ihs acc' h).trans (sub_deleteSubTree f acc s acc' hs)

theorem reach_sub {a b : DB} (h : Sub a b) {k x : Str} (hr : Reach a k x) : Reach b k x := by
  induction hr with
  | self k => exact Reach.self k
  | @down k s x n hl hin hs _ ih => exact Reach.down (h k n hl) hin hs ih

/-- **coverage**, measured in the database the deletion STARTED from (`db0`), while the recursion
    runs on what is left of it (`acc`): whatever was at or below the node is gone — also when
    branches share nodes -/
theorem deleteSubTree_covers (fuel : Nat) : ∀ (db0 acc : DB) (key : Str) (d : DB), Sub acc db0 →
    deleteSubTree fuel acc key = some d → ∀ x, Reach db0 key x → lookup d x = none := by
  induction fuel with
  | zero => intro db0 acc key d _ h; simp [deleteSubTree] at h
  | succ f ih =>
    intro db0 acc key d hsub h x hr
    rw [deleteSubTree_succ] at h
    cases hl : lookup acc key with
    | none => rw [hl] at h; cases h
    | some n =>
      rw [hl] at h
      simp only [Option.map_eq_some_iff] at h
      obtain ⟨d0, hd0, rfl⟩ := h
      cases hr with
      | self => exact lookup_del_eq _ _
      | @down _ s _ n' hl' hin hs hrs =>
        have : n' = n := by
          have := hsub key n hl
          rw [hl'] at this; exact Option.some.inj this
        subst this
        rw [if_pos hin] at hd0
        apply Sub.none (sub_del d0 key)
        have fold : ∀ (subs : List Str) (a : DB), delFold f subs (some a) = some d0 → Sub a db0 → s ∈ subs → lookup d0 x = none := by
          intro subs
          induction subs with
          | nil => intro a _ _ hm; cases hm
          | cons s0 rest ihs =>
            intro a hh ha hm
            rw [delFold_cons] at hh
            cases hs0 : deleteSubTree f a s0 with
            | none => rw [hs0, delFold_none] at hh; cases hh
            | some a' =>
              rw [hs0] at hh
              rcases List.mem_cons.mp hm with rfl | hm'
              · exact Sub.none (sub_delFold f rest a' d0 hh) (ih db0 a s a' ha hs0 x hrs)
              · exact ihs a' hh ((sub_deleteSubTree f a s0 a' hs0).trans ha) hm'
        exact fold _ _ hd0 hsub hs

/-- **locality**: what is not at or below the node is exactly as it was -/
theorem deleteSubTree_local (fuel : Nat) : ∀ (db : DB) (key : Str) (d : DB), deleteSubTree fuel db key = some d →
    ∀ x, ¬ Reach db key x → lookup d x = lookup db x := by
  induction fuel with
  | zero => intro db key d h; simp [deleteSubTree] at h
  | succ f ih =>
    intro db key d h x hnr
    rw [deleteSubTree_succ] at h
    cases hl : lookup db key with
    | none => rw [hl] at h; cases h
    | some n =>
      rw [hl] at h
      simp only [Option.map_eq_some_iff] at h
      obtain ⟨d0, hd0, rfl⟩ := h
      have hxk : x ≠ key := fun e => hnr (e ▸ Reach.self _)
      rw [lookup_del_ne _ _ _ hxk]
      by_cases hin : isInner n = true
      · rw [if_pos hin] at hd0
        have hsubs : ∀ s ∈ n.subs, ¬ Reach db s x := fun s hs hr => hnr (Reach.down hl hin hs hr)
        have fold : ∀ (subs : List Str) (a : DB), delFold f subs (some a) = some d0 → Sub a db →
            (∀ s ∈ subs, ¬ Reach db s x) → lookup d0 x = lookup a x := by
          intro subs
          induction subs with
          | nil => intro a hh _ _; simp [delFold] at hh; subst hh; rfl
          | cons s0 rest ihs =>
            intro a hh ha hno
            rw [delFold_cons] at hh
            cases hs0 : deleteSubTree f a s0 with
            | none => rw [hs0, delFold_none] at hh; cases hh
            | some a' =>
              rw [hs0] at hh
              have hstep : lookup a' x = lookup a x :=
                ih a s0 a' hs0 x (fun hr => hno s0 List.mem_cons_self (reach_sub ha hr))
              rw [ihs a' hh ((sub_deleteSubTree f a s0 a' hs0).trans ha) (fun s hs => hno s (List.mem_cons_of_mem _ hs)), hstep]
        exact fold _ _ hd0 (Sub.refl _) hsubs
      · rw [if_neg hin] at hd0
        cases hd0; rfl


end Idpy.SessionDB
