import IdpyVerif.Model.Provider
namespace Idpy.Provider

/-- what every operation preserves about an existing token (everything except `used`,
    `mints`, and `revoked` which may only be set) -/
structure Keeps (t t' : Tok) : Prop where
  id : t'.id = t.id
  gid : t'.gid = t.gid
  cls : t'.cls = t.cls
  basedOn : t'.basedOn = t.basedOn
  maxUsage : t'.maxUsage = t.maxUsage
  exp : t'.exp = t.exp
  scope : t'.scope = t.scope
  revoked : t.revoked = true → t'.revoked = true
  used : t.used ≤ t'.used          -- at API-step granularity the usage counter never decreases

theorem Keeps.refl (t : Tok) : Keeps t t := ⟨rfl, rfl, rfl, rfl, rfl, rfl, rfl, fun h => h, Nat.le_refl _⟩
theorem Keeps.trans {a b c : Tok} (h1 : Keeps a b) (h2 : Keeps b c) : Keeps a c :=
  ⟨h2.id.trans h1.id, h2.gid.trans h1.gid, h2.cls.trans h1.cls, h2.basedOn.trans h1.basedOn,
   h2.maxUsage.trans h1.maxUsage, h2.exp.trans h1.exp, h2.scope.trans h1.scope,
   fun h => h2.revoked (h1.revoked h), Nat.le_trans h1.used h2.used⟩

/-- freshly minted codes are single-use -/
def CodeOk (t : Tok) : Prop := t.cls = .code → t.maxUsage = some 1

/-- token list `b` evolved from `a`: every token of `b` is an old one (identity kept) or has a
    fresh id (≥ n) -/
def Evolve (n : Nat) (a b : List Tok) : Prop :=
  ∀ t' ∈ b, (∃ t ∈ a, Keeps t t') ∨ (n ≤ t'.id ∧ CodeOk t')

theorem Evolve.refl (n : Nat) (a : List Tok) : Evolve n a a :=
  fun t h => Or.inl ⟨t, h, Keeps.refl t⟩

theorem Evolve.trans {n m : Nat} {a b c : List Tok} (hnm : n ≤ m) (h1 : Evolve n a b) (h2 : Evolve m b c) :
    Evolve n a c := by
  intro t' ht'
  rcases h2 t' ht' with ⟨t, ht, hk⟩ | hf
  · rcases h1 t ht with ⟨t0, ht0, hk0⟩ | hf0
    · exact Or.inl ⟨t0, ht0, hk0.trans hk⟩
    · exact Or.inr ⟨by rw [hk.id]; exact hf0.1, fun h => by rw [hk.maxUsage]; exact hf0.2 (by rw [← hk.cls]; exact h)⟩
  · exact Or.inr ⟨Nat.le_trans hnm hf.1, hf.2⟩

theorem Evolve.mono {n m : Nat} {a b : List Tok} (hnm : m ≤ n) (h : Evolve n a b) : Evolve m a b := by
  intro t' ht'
  rcases h t' ht' with h1 | h2
  · exact Or.inl h1
  · exact Or.inr ⟨Nat.le_trans hnm h2.1, h2.2⟩

/-- mapping with a function that keeps identity -/
theorem evolve_map (n : Nat) (a : List Tok) (f : Tok → Tok) (hf : ∀ t, Keeps t (f t)) :
    Evolve n a (a.map f) := by
  intro t' ht'
  obtain ⟨t, ht, rfl⟩ := List.mem_map.mp ht'
  exact Or.inl ⟨t, ht, hf t⟩

theorem evolve_updTok (n : Nat) (a : List Tok) (id : Nat) (f : Tok → Tok) (hf : ∀ t, Keeps t (f t)) :
    Evolve n a (updTok a id f) := by
  unfold updTok
  apply evolve_map
  intro t; split
  · exact hf t
  · exact Keeps.refl t

theorem evolve_filter (n : Nat) (a : List Tok) (p : Tok → Bool) : Evolve n a (a.filter p) :=
  fun t ht => Or.inl ⟨t, (List.mem_filter.mp ht).1, Keeps.refl t⟩

theorem evolve_append_fresh (n : Nat) (a b : List Tok) (t : Tok) (h : Evolve n a b) (ht : n ≤ t.id ∧ CodeOk t) :
    Evolve n a (b ++ [t]) := by
  intro t' ht'
  rcases List.mem_append.mp ht' with h1 | h1
  · exact h t' h1
  · simp at h1; subst h1; exact Or.inr ht

theorem keeps_used (t : Tok) (u : Nat) (h : t.used ≤ u) : Keeps t { t with used := u } :=
  ⟨rfl, rfl, rfl, rfl, rfl, rfl, rfl, fun h => h, h⟩
theorem keeps_revoke (t : Tok) : Keeps t { t with revoked := true } := ⟨rfl, rfl, rfl, rfl, rfl, rfl, rfl, fun _ => rfl, Nat.le_refl _⟩
theorem keeps_mints (t : Tok) (m : List Cls) : Keeps t { t with mints := m } := ⟨rfl, rfl, rfl, rfl, rfl, rfl, rfl, fun h => h, Nat.le_refl _⟩
theorem codeOk_newTok (cfg : Cfg) (s : St) (g : Gr) (cls : Cls) (b : Option Nat) (sc : List Str) : CodeOk (newTok cfg s g cls b sc) := by
  intro h; simp only [newTok] at h ⊢; simp [h]

theorem keeps_ite_revoke (t : Tok) (c : Prop) [Decidable c] : Keeps t (if c then { t with revoked := true } else t) := by
  split
  · exact keeps_revoke t
  · exact Keeps.refl t

/-! ### primitives -/

theorem mint_ok_next {cfg s g cls base sc s' id} (h : mint cfg s g cls base sc = .ok s' id) :
    s'.next = s.next + 1 ∧ id = s.next ∧ s'.now = s.now ∧ s'.grants = s.grants ∧ s'.pending = s.pending := by
  unfold mint at h
  split at h
  · simp at h
  · split at h
    · simp at h; obtain ⟨rfl, rfl⟩ := h; simp [newTok]
    · split at h
      · simp at h
      · split at h
        · simp at h
        · split at h
          · simp at h
          · simp at h; obtain ⟨rfl, rfl⟩ := h; simp [newTok]

theorem mint_ok_evolve {cfg s g cls base sc s' id} (h : mint cfg s g cls base sc = .ok s' id) :
    Evolve s.next s.toks s'.toks := by
  unfold mint at h
  split at h
  · simp at h
  · split at h
    · simp at h; obtain ⟨rfl, rfl⟩ := h
      exact evolve_append_fresh _ _ _ _ (Evolve.refl _ _) ⟨by simp [newTok], codeOk_newTok _ _ _ _ _ _⟩
    · split at h
      · simp at h
      · split at h
        · simp at h
        · split at h
          · simp at h
          · simp at h; obtain ⟨rfl, rfl⟩ := h
            exact evolve_append_fresh _ _ _ _ (evolve_updTok _ _ _ _ (fun t => keeps_used t _ (Nat.le_succ _))) ⟨by simp [newTok], codeOk_newTok _ _ _ _ _ _⟩

theorem incUsed_evolve (n : Nat) (s : St) (id : Nat) : Evolve n s.toks (incUsed s id).toks :=
  evolve_updTok _ _ _ _ (fun t => keeps_used t _ (Nat.le_succ _))

theorem revokeBasedOn_evolve (n fuel : Nat) (toks : List Tok) (gid v : Nat) :
    Evolve n toks (revokeBasedOn fuel toks gid v) := by
  induction fuel generalizing toks v with
  | zero => exact Evolve.refl _ _
  | succ f ih =>
    unfold revokeBasedOn
    simp only
    have h1 : Evolve n toks (toks.map (fun t => if t.gid = gid ∧ t.basedOn = some v then { t with revoked := true } else t)) :=
      evolve_map _ _ _ (fun t => keeps_ite_revoke t _)
    generalize (toks.map (fun t => if t.gid = gid ∧ t.basedOn = some v then { t with revoked := true } else t)) = toks1 at h1
    generalize ((toks.filter (fun t => decide (t.gid = gid ∧ t.basedOn = some v))).map (·.id)) = kids
    induction kids generalizing toks1 with
    | nil => simpa using h1
    | cons k ks ihk =>
      simp only [List.foldl_cons]
      exact ihk _ (Evolve.trans (Nat.le_refl n) h1 (ih toks1 k))

/-- forward direction: every token survives `revokeBasedOn` with its identity (flags only set) -/
theorem revokeBasedOn_keeps (fuel : Nat) (toks : List Tok) (gid v : Nat) (x : Tok) (hx : x ∈ toks) :
    ∃ y ∈ revokeBasedOn fuel toks gid v, Keeps x y := by
  induction fuel generalizing toks v x with
  | zero => exact ⟨x, hx, Keeps.refl x⟩
  | succ f ih =>
    unfold revokeBasedOn
    simp only
    have h1 : ∃ y ∈ toks.map (fun t => if t.gid = gid ∧ t.basedOn = some v then { t with revoked := true } else t), Keeps x y :=
      ⟨_, List.mem_map.mpr ⟨x, hx, rfl⟩, keeps_ite_revoke x _⟩
    generalize (toks.map (fun t => if t.gid = gid ∧ t.basedOn = some v then { t with revoked := true } else t)) = toks1 at h1
    generalize ((toks.filter (fun t => decide (t.gid = gid ∧ t.basedOn = some v))).map (·.id)) = kids
    induction kids generalizing toks1 with
    | nil => simpa using h1
    | cons k ks ihk =>
      simp only [List.foldl_cons]
      obtain ⟨y, hy, hk⟩ := h1
      obtain ⟨z, hz, hkz⟩ := ih toks1 k y hy
      exact ihk _ ⟨z, hz, hk.trans hkz⟩

theorem revokeGr_evolve (n : Nat) (s : St) (gid : Nat) : Evolve n s.toks (revokeGr s gid).toks := by
  unfold revokeGr revokeGrantToks
  exact evolve_map _ _ _ (fun t => keeps_ite_revoke t _)

theorem revokeGr_next (s : St) (gid : Nat) : (revokeGr s gid).next = s.next ∧ (revokeGr s gid).now = s.now := by
  simp [revokeGr]

theorem foldl_revokeGr_evolve (n : Nat) (gs : List Nat) (s : St) : Evolve n s.toks (gs.foldl revokeGr s).toks := by
  induction gs generalizing s with
  | nil => exact Evolve.refl _ _
  | cons g gs ih =>
    simp only [List.foldl_cons]
    exact Evolve.trans (Nat.le_refl n) (revokeGr_evolve n s g) (ih _)

theorem foldl_revokeGr_next (gs : List Nat) (s : St) :
    (gs.foldl revokeGr s).next = s.next ∧ (gs.foldl revokeGr s).now = s.now := by
  induction gs generalizing s with
  | nil => simp
  | cons g gs ih =>
    simp only [List.foldl_cons]
    rw [(ih _).1, (ih _).2]; exact revokeGr_next s g



/-! ### identity invariant: token values are unique and below the fresh counter -/

def ids (l : List Tok) : List Nat := l.map (·.id)

def Inv (s : St) : Prop := (ids s.toks).Pairwise (· ≠ ·) ∧ ∀ i ∈ ids s.toks, i < s.next

/-- `b` keeps (a sub-list of) the identities of `a` -/
def IdsSub (a b : List Tok) : Prop := (ids b).Sublist (ids a)

theorem IdsSub.refl (a : List Tok) : IdsSub a a := List.Sublist.refl _
theorem IdsSub.trans {a b c : List Tok} (h1 : IdsSub a b) (h2 : IdsSub b c) : IdsSub a c :=
  List.Sublist.trans h2 h1

theorem idsSub_map (a : List Tok) (f : Tok → Tok) (hf : ∀ t, (f t).id = t.id) : IdsSub a (a.map f) := by
  unfold IdsSub ids
  rw [List.map_map]
  have : ((fun t => t.id) ∘ f) = (fun t => t.id) := by funext t; simp [hf]
  rw [this]; exact List.Sublist.refl _

theorem idsSub_updTok (a : List Tok) (id : Nat) (f : Tok → Tok) (hf : ∀ t, (f t).id = t.id) :
    IdsSub a (updTok a id f) := by
  unfold updTok
  apply idsSub_map
  intro t; split
  · exact hf t
  · rfl

theorem idsSub_filter (a : List Tok) (p : Tok → Bool) : IdsSub a (a.filter p) := by
  unfold IdsSub ids
  exact List.Sublist.map _ List.filter_sublist

theorem inv_of_idsSub {s : St} {toks : List Tok} {n : Nat} (hn : s.next ≤ n) (h : IdsSub s.toks toks) (hi : Inv s) :
    Inv { s with toks := toks, next := n } :=
  ⟨List.Pairwise.sublist h hi.1, fun i hm => Nat.lt_of_lt_of_le (hi.2 i (h.subset hm)) hn⟩

theorem inv_append_fresh {s : St} {toks : List Tok} (t : Tok) (h : IdsSub s.toks toks) (ht : t.id = s.next)
    (hi : Inv s) : Inv { s with toks := toks ++ [t], next := s.next + 1 } := by
  have h1 := inv_of_idsSub (Nat.le_refl s.next) h hi
  constructor
  · show (ids (toks ++ [t])).Pairwise (· ≠ ·)
    simp only [ids, List.map_append, List.map_cons, List.map_nil]
    rw [List.pairwise_append]
    refine ⟨h1.1, by simp, ?_⟩
    intro a ha b hb
    simp at hb; subst hb
    have := h1.2 a ha
    simp only at this; omega
  · intro i hm
    simp only [ids, List.map_append, List.map_cons, List.map_nil, List.mem_append, List.mem_singleton] at hm
    rcases hm with hm | rfl
    · have := h1.2 i hm; simp only at this ⊢; omega
    · simp only; omega

theorem revokeBasedOn_idsSub (fuel : Nat) (toks : List Tok) (gid v : Nat) :
    IdsSub toks (revokeBasedOn fuel toks gid v) := by
  induction fuel generalizing toks v with
  | zero => exact IdsSub.refl _
  | succ f ih =>
    unfold revokeBasedOn
    simp only
    have h1 : IdsSub toks (toks.map (fun t => if t.gid = gid ∧ t.basedOn = some v then { t with revoked := true } else t)) :=
      idsSub_map _ _ (fun t => by split <;> rfl)
    generalize (toks.map (fun t => if t.gid = gid ∧ t.basedOn = some v then { t with revoked := true } else t)) = toks1 at h1
    generalize ((toks.filter (fun t => decide (t.gid = gid ∧ t.basedOn = some v))).map (·.id)) = kids
    induction kids generalizing toks1 with
    | nil => simpa using h1
    | cons k ks ihk =>
      simp only [List.foldl_cons]
      exact ihk _ (h1.trans (ih toks1 k))

theorem mint_ok_inv {cfg s g cls base sc s' id} (h : mint cfg s g cls base sc = .ok s' id) (hi : Inv s) : Inv s' := by
  unfold mint at h
  split at h
  · simp at h
  · split at h
    · simp at h; obtain ⟨rfl, rfl⟩ := h
      exact inv_append_fresh _ (IdsSub.refl _) (by simp [newTok]) hi
    · split at h
      · simp at h
      · split at h
        · simp at h
        · split at h
          · simp at h
          · simp at h; obtain ⟨rfl, rfl⟩ := h
            exact inv_append_fresh _ (idsSub_updTok _ _ _ (fun t => rfl)) (by simp [newTok]) hi


/-! ### the token-exchange mint -/

theorem codeOk_newTok_exp (cfg : Cfg) (s : St) (g : Gr) (cls : Cls) (b : Option Nat) (sc : List Str) (e : Nat) :
    CodeOk { newTok cfg s g cls b sc with exp := e } := by
  intro h; simp only [newTok] at h ⊢; simp [h]

/-- what a successful exchange mint looks like -/
theorem mintX_ok_shape {cfg s g cls b sc s' id} (h : mintX cfg s g cls b sc = .ok s' id) :
    ∃ bt, findTok s b = some bt ∧ bt.mints.contains cls = true ∧ tokActive s.now bt = true ∧ grActive s.now g = true ∧
      id = s.next ∧
      s' = { s with next := s.next + 1,
                    toks := updTok s.toks b (fun x => { x with used := x.used + 1 }) ++
                      [{ newTok cfg s g cls (some b) sc with exp := bt.exp }] } := by
  unfold mintX at h
  split at h
  · simp at h
  · rename_i hg
    split at h
    · simp at h
    · rename_i bt hbt
      split at h
      · simp at h
      · rename_i hm
        split at h
        · simp at h
        · rename_i ha
          simp only [MintRes.ok.injEq] at h
          obtain ⟨rfl, rfl⟩ := h
          exact ⟨bt, hbt, by simpa using hm, by simpa using ha, by simpa using hg, by simp [newTok], rfl⟩

theorem mintX_ok_next {cfg s g cls b sc s' id} (h : mintX cfg s g cls b sc = .ok s' id) :
    s'.next = s.next + 1 ∧ id = s.next ∧ s'.now = s.now ∧ s'.grants = s.grants ∧ s'.pending = s.pending := by
  obtain ⟨bt, _, _, _, _, hid, rfl⟩ := mintX_ok_shape h
  exact ⟨rfl, hid, rfl, rfl, rfl⟩

theorem mintX_ok_evolve {cfg s g cls b sc s' id} (h : mintX cfg s g cls b sc = .ok s' id) :
    Evolve s.next s.toks s'.toks := by
  obtain ⟨bt, _, _, _, _, _, rfl⟩ := mintX_ok_shape h
  exact evolve_append_fresh _ _ _ _ (evolve_updTok _ _ _ _ (fun t => keeps_used t _ (Nat.le_succ _)))
    ⟨by simp [newTok], codeOk_newTok_exp _ _ _ _ _ _ _⟩

theorem mintX_ok_inv {cfg s g cls b sc s' id} (h : mintX cfg s g cls b sc = .ok s' id) (hi : Inv s) : Inv s' := by
  obtain ⟨bt, _, _, _, _, _, rfl⟩ := mintX_ok_shape h
  exact inv_append_fresh _ (idsSub_updTok _ _ _ (fun t => rfl)) (by simp [newTok]) hi

/-- facts every operation satisfies, as a relation between pre- and post-state -/
structure Adv (s s' : St) : Prop where
  ev : Evolve s.next s.toks s'.toks
  next : s.next ≤ s'.next
  now : s.now ≤ s'.now
  inv : Inv s → Inv s'

theorem Adv.refl (s : St) : Adv s s := ⟨Evolve.refl _ _, Nat.le_refl _, Nat.le_refl _, fun h => h⟩
theorem Adv.trans {a b c : St} (h1 : Adv a b) (h2 : Adv b c) : Adv a c :=
  ⟨Evolve.trans h1.next h1.ev h2.ev, Nat.le_trans h1.next h2.next, Nat.le_trans h1.now h2.now,
   fun h => h2.inv (h1.inv h)⟩

theorem adv_toks (s : St) (toks : List Tok) (h : Evolve s.next s.toks toks) (hs : IdsSub s.toks toks) :
    Adv s { s with toks := toks } :=
  ⟨h, Nat.le_refl _, Nat.le_refl _, fun hi => inv_of_idsSub (Nat.le_refl _) hs hi⟩

theorem adv_frame (s : St) (now : Nat) (p : List Req) (g : List Gr) (h : s.now ≤ now) :
    Adv s { s with now := now, pending := p, grants := g } :=
  ⟨Evolve.refl _ _, Nat.le_refl _, h, fun hi => hi⟩

theorem mint_ok_adv {cfg s g cls base sc s' id} (h : mint cfg s g cls base sc = .ok s' id) : Adv s s' := by
  have h1 := mint_ok_next h
  exact ⟨mint_ok_evolve h, by omega, by omega, mint_ok_inv h⟩

theorem mintX_ok_adv {cfg s g cls b sc s' id} (h : mintX cfg s g cls b sc = .ok s' id) : Adv s s' := by
  have h1 := mintX_ok_next h
  exact ⟨mintX_ok_evolve h, by omega, by omega, mintX_ok_inv h⟩

/-- a new grant record: tokens untouched, the counter moves by one -/
theorem adv_newGrant (s : St) (g : Gr) : Adv s { s with next := s.next + 1, grants := s.grants ++ [g] } :=
  ⟨Evolve.refl _ _, Nat.le_succ _, Nat.le_refl _, fun hi => inv_of_idsSub (Nat.le_succ _) (IdsSub.refl _) hi⟩

theorem incUsed_adv (s : St) (id : Nat) : Adv s (incUsed s id) :=
  adv_toks s _ (incUsed_evolve _ s id) (idsSub_updTok _ _ _ (fun _ => rfl))

/-! ### the `used -= 1` dance of the code redemption
Inside one `process_request` the code's counter goes +1 (access token), −1, +1 (refresh token),
−1, +1 (ID token), +1 (register_usage).  `AdvK c lo` is `Adv` where the counter of tokens with
value `c` is only known to have moved by at least `lo` (an integer). -/

structure Keeps0 (t t' : Tok) : Prop where
  id : t'.id = t.id
  gid : t'.gid = t.gid
  cls : t'.cls = t.cls
  basedOn : t'.basedOn = t.basedOn
  maxUsage : t'.maxUsage = t.maxUsage
  exp : t'.exp = t.exp
  scope : t'.scope = t.scope
  revoked : t.revoked = true → t'.revoked = true

theorem Keeps0.refl (t : Tok) : Keeps0 t t := ⟨rfl, rfl, rfl, rfl, rfl, rfl, rfl, fun h => h⟩
theorem Keeps0.trans {a b c : Tok} (h1 : Keeps0 a b) (h2 : Keeps0 b c) : Keeps0 a c :=
  ⟨h2.id.trans h1.id, h2.gid.trans h1.gid, h2.cls.trans h1.cls, h2.basedOn.trans h1.basedOn,
   h2.maxUsage.trans h1.maxUsage, h2.exp.trans h1.exp, h2.scope.trans h1.scope,
   fun h => h2.revoked (h1.revoked h)⟩
theorem Keeps.to0 {t t' : Tok} (h : Keeps t t') : Keeps0 t t' :=
  ⟨h.id, h.gid, h.cls, h.basedOn, h.maxUsage, h.exp, h.scope, h.revoked⟩
theorem Keeps0.toKeeps {t t' : Tok} (h : Keeps0 t t') (hu : t.used ≤ t'.used) : Keeps t t' :=
  ⟨h.id, h.gid, h.cls, h.basedOn, h.maxUsage, h.exp, h.scope, h.revoked, hu⟩

def EvolveK (c : Nat) (lo : Int) (n : Nat) (a b : List Tok) : Prop :=
  ∀ t' ∈ b, (∃ t ∈ a, Keeps0 t t' ∧ (t.id = c → (t.used : Int) + lo ≤ t'.used) ∧ (t.id ≠ c → t.used ≤ t'.used))
    ∨ (n ≤ t'.id ∧ CodeOk t')

structure AdvK (c : Nat) (lo : Int) (s s' : St) : Prop where
  ev : EvolveK c lo s.next s.toks s'.toks
  next : s.next ≤ s'.next
  now : s.now ≤ s'.now
  inv : Inv s → Inv s'

theorem Adv.toK {s s' : St} (c : Nat) (h : Adv s s') : AdvK c 0 s s' := by
  refine ⟨?_, h.next, h.now, h.inv⟩
  intro t' ht'
  rcases h.ev t' ht' with ⟨t, ht, hk⟩ | hf
  · exact Or.inl ⟨t, ht, hk.to0, fun _ => by have := hk.used; omega, fun _ => hk.used⟩
  · exact Or.inr hf

theorem AdvK.toAdv {c : Nat} {lo : Int} {s s' : St} (hlo : 0 ≤ lo) (h : AdvK c lo s s') : Adv s s' := by
  refine ⟨?_, h.next, h.now, h.inv⟩
  intro t' ht'
  rcases h.ev t' ht' with ⟨t, ht, hk, h1, h2⟩ | hf
  · refine Or.inl ⟨t, ht, hk.toKeeps ?_⟩
    by_cases hc : t.id = c
    · have := h1 hc; omega
    · exact h2 hc
  · exact Or.inr hf

theorem AdvK.trans {c : Nat} {l1 l2 : Int} {a b d : St} (h1 : AdvK c l1 a b) (h2 : AdvK c l2 b d) :
    AdvK c (l1 + l2) a d := by
  refine ⟨?_, Nat.le_trans h1.next h2.next, Nat.le_trans h1.now h2.now, fun h => h2.inv (h1.inv h)⟩
  intro t' ht'
  rcases h2.ev t' ht' with ⟨t, ht, hk, hc, hn⟩ | hf
  · rcases h1.ev t ht with ⟨t0, ht0, hk0, hc0, hn0⟩ | hf0
    · refine Or.inl ⟨t0, ht0, hk0.trans hk, ?_, ?_⟩
      · intro h
        have e1 := hc0 h
        have e2 := hc (by rw [hk0.id]; exact h)
        omega
      · intro h
        have e1 := hn0 h
        have e2 := hn (by rw [hk0.id]; exact h)
        omega
    · exact Or.inr ⟨by rw [hk.id]; exact hf0.1, fun h => by rw [hk.maxUsage]; exact hf0.2 (by rw [← hk.cls]; exact h)⟩
  · exact Or.inr ⟨Nat.le_trans h1.next hf.1, hf.2⟩

theorem AdvK.weaken {c : Nat} {lo lo' : Int} {s s' : St} (hl : lo' ≤ lo) (h : AdvK c lo s s') : AdvK c lo' s s' := by
  refine ⟨?_, h.next, h.now, h.inv⟩
  intro t' ht'
  rcases h.ev t' ht' with ⟨t, ht, hk, h1, h2⟩ | hf
  · exact Or.inl ⟨t, ht, hk, fun hc => by have := h1 hc; omega, h2⟩
  · exact Or.inr hf

/-- `updTok` on the tracked id with a function that moves `used` by at least `lo` -/
theorem advK_updTok (c : Nat) (lo : Int) (s : St) (f : Tok → Tok) (hf : ∀ t, Keeps0 t (f t))
    (hu : ∀ t, (t.used : Int) + lo ≤ (f t).used) :
    AdvK c lo s { s with toks := updTok s.toks c f } := by
  refine ⟨?_, Nat.le_refl _, Nat.le_refl _, fun hi => inv_of_idsSub (Nat.le_refl _) (idsSub_updTok _ _ _ (fun t => (hf t).id)) hi⟩
  intro t' ht'
  simp only [updTok, List.mem_map] at ht'
  obtain ⟨t, ht, rfl⟩ := ht'
  refine Or.inl ⟨t, ht, ?_, ?_, ?_⟩
  · split
    · exact hf t
    · exact Keeps0.refl t
  · intro hc; simp [hc]; exact hu t
  · intro hc; simp [hc]

theorem decUsed_advK (s : St) (c : Nat) : AdvK c (-1) s (decUsed s c) :=
  advK_updTok c (-1) s _ (fun _ => ⟨rfl, rfl, rfl, rfl, rfl, rfl, rfl, fun h => h⟩) (fun t => by simp only; omega)

theorem incUsed_advK (s : St) (c : Nat) : AdvK c 1 s (incUsed s c) :=
  advK_updTok c 1 s _ (fun _ => ⟨rfl, rfl, rfl, rfl, rfl, rfl, rfl, fun h => h⟩) (fun t => by simp only; omega)

/-- a successful mint based on the tracked token counts one usage -/
theorem mint_ok_advK {cfg s g cls c sc s' id} (h : mint cfg s g cls (some c) sc = .ok s' id) : AdvK c 1 s s' := by
  have hn := mint_ok_next h
  refine ⟨?_, by omega, by omega, mint_ok_inv h⟩
  unfold mint at h
  split at h
  · simp at h
  · simp only at h
    split at h
    · simp at h
    · split at h
      · simp at h
      · split at h
        · simp at h
        · simp at h; obtain ⟨rfl, rfl⟩ := h
          intro t' ht'
          simp only [List.mem_append, List.mem_singleton] at ht'
          rcases ht' with ht' | rfl
          · simp only [updTok, List.mem_map] at ht'
            obtain ⟨t, ht, rfl⟩ := ht'
            refine Or.inl ⟨t, ht, ?_, ?_, ?_⟩
            · split
              · exact ⟨rfl, rfl, rfl, rfl, rfl, rfl, rfl, fun h => h⟩
              · exact Keeps0.refl t
            · intro hc; simp [hc]
            · intro hc; simp [hc]
          · exact Or.inr ⟨by simp [newTok], codeOk_newTok _ _ _ _ _ _⟩

theorem mintAfterDec_advK (cfg : Cfg) (s : St) (g : Gr) (cls : Cls) (code : Nat) (want : Bool) :
    AdvK code (-1) s (mintAfterDec cfg s g cls code want).1 := by
  unfold mintAfterDec
  split
  · split
    · rename_i h
      exact AdvK.weaken (by omega) ((decUsed_advK s code).trans (mint_ok_advK h))
    · exact decUsed_advK s code
  · exact AdvK.weaken (by omega) ((Adv.refl s).toK code)

/-- the whole redemption chain never leaves a counter lower than it found it -/
theorem redeem_chain_adv {cfg s0 g code s1 atk} (h : mint cfg s0 g .access (some code) none = .ok s1 atk)
    (w1 w2 : Bool) :
    Adv s0 (incUsed (mintAfterDec cfg (mintAfterDec cfg s1 g .refresh code w1).1 g .idtoken code w2).1 code) := by
  have c1 := mint_ok_advK h
  have c2 := mintAfterDec_advK cfg s1 g .refresh code w1
  have c3 := mintAfterDec_advK cfg (mintAfterDec cfg s1 g .refresh code w1).1 g .idtoken code w2
  have c4 := incUsed_advK (mintAfterDec cfg (mintAfterDec cfg s1 g .refresh code w1).1 g .idtoken code w2).1 code
  exact AdvK.toAdv (by omega) (((c1.trans c2).trans c3).trans c4)

theorem mintExtra_adv (cfg : Cfg) (s : St) (g : Gr) (cls : Cls) (base : Nat) (sc : List Str) (want : Bool) :
    Adv s (mintExtra cfg s g cls base sc want).1 := by
  unfold mintExtra
  split
  · split
    · rename_i h; exact mint_ok_adv h
    · exact Adv.refl s
  · exact Adv.refl s

theorem setMints_adv (s : St) (id : Option Nat) (m : List Cls) : Adv s (setMints s id m) := by
  unfold setMints
  split
  · exact Adv.refl s
  · exact adv_toks s _ (evolve_updTok _ _ _ _ (fun t => keeps_mints t _)) (idsSub_updTok _ _ _ (fun _ => rfl))

theorem revokeIf_adv (s : St) (c : Bool) (id : Nat) : Adv s (revokeIf s c id) := by
  unfold revokeIf
  split
  · exact adv_toks s _ (evolve_updTok _ _ _ _ (fun t => keeps_revoke t)) (idsSub_updTok _ _ _ (fun _ => rfl))
  · exact Adv.refl s

theorem revokeGr_adv (s : St) (gid : Nat) : Adv s (revokeGr s gid) :=
  ⟨revokeGr_evolve _ s gid, by simp [revokeGr], by simp [revokeGr],
   fun hi => inv_of_idsSub (Nat.le_refl _) (idsSub_map _ _ (fun t => by split <;> rfl)) hi⟩

theorem foldl_revokeGr_adv (gs : List Nat) (s : St) : Adv s (gs.foldl revokeGr s) := by
  induction gs generalizing s with
  | nil => exact Adv.refl s
  | cons g gs ih =>
    simp only [List.foldl_cons]
    exact (revokeGr_adv s g).trans (ih _)

/-- every API step advances the state monotonically -/
theorem step_adv (cfg : Cfg) (s : St) (op : Op) : Adv s (step cfg s op).1 := by
  cases op with
  | tick n => exact ⟨Evolve.refl _ _, Nat.le_refl _, by simp [step], fun hi => hi⟩
  | authorize user client scope redirect =>
    simp only [step]
    split
    · exact Adv.refl s
    split
    · rename_i s2 c h
      have h1 := mint_ok_adv h
      have h2 := (mint_ok_next h).1
      refine ⟨?_, ?_, h1.now, ?_⟩
      · exact Evolve.mono (by simp) h1.ev
      · simp only [] at h2 ⊢; omega
      · intro hi
        exact h1.inv (inv_of_idsSub (Nat.le_succ _) (IdsSub.refl _) hi)
    · exact Adv.refl s
  | tokenParse client code redirect =>
    simp only [step]
    split
    · exact Adv.refl s
    · split
      · exact Adv.refl s
      · split
        · exact Adv.refl s
        · split
          · exact adv_toks s _ (revokeBasedOn_evolve _ _ _ _ _) (revokeBasedOn_idsSub _ _ _ _)
          · split
            · exact Adv.refl s
            · exact ⟨Evolve.refl _ _, Nat.le_refl _, Nat.le_refl _, fun hi => hi⟩
  | tokenProcess idx =>
    simp only [step]
    split
    · exact Adv.refl s
    · have h0 : ∀ (p : List Req), Adv s { s with pending := p } := fun p => ⟨Evolve.refl _ _, Nat.le_refl _, Nat.le_refl _, fun hi => hi⟩
      split
      · exact h0 _
      · split
        · exact h0 _
        · split
          · exact h0 _
          · split
            · exact h0 _
            · split
              · exact h0 _
              · split
                · exact h0 _
                · exact (h0 _).trans (incUsed_adv _ _)
              · rename_i h
                exact (h0 _).trans (redeem_chain_adv h _ _)
  | refresh client rt scope =>
    simp only [step]
    split
    · exact Adv.refl s
    · split
      · exact Adv.refl s
      · split
        · exact Adv.refl s
        · split
          · exact Adv.refl s
          · split
            · exact Adv.refl s
            · split
              · exact Adv.refl s
              · split
                · exact Adv.refl s
                · exact Adv.refl s
                · rename_i h
                  exact (mint_ok_adv h).trans ((mintExtra_adv _ _ _ _ _ _ _).trans ((setMints_adv _ _ _).trans
                    ((mintExtra_adv _ _ _ _ _ _ _).trans ((incUsed_adv _ _).trans (revokeIf_adv _ _ _)))))
  | exchange client subj styp rtyp scope =>
    simp only [step]
    repeat (first
      | exact Adv.refl s
      | exact adv_newGrant s _
      | (rename_i h; exact mintX_ok_adv h)
      | (rename_i h; exact (adv_newGrant s _).trans (mintX_ok_adv h))
      | split)
  | userinfo tok =>
    simp only [step]
    repeat (first | exact Adv.refl s | split)
  | introspect c tok =>
    simp only [step]
    repeat (first | exact Adv.refl s | split)
  | revokeEp c tok =>
    simp only [step]
    repeat (first | exact Adv.refl s | exact adv_toks s _ (evolve_updTok _ _ _ _ (fun t => keeps_revoke t)) (idsSub_updTok _ _ _ (fun _ => rfl)) | split)
  | revokeTok tok r =>
    simp only [step]
    split
    · exact Adv.refl s
    · split
      · exact adv_toks s _ (Evolve.trans (Nat.le_refl _) (evolve_updTok _ _ _ _ (fun t => keeps_revoke t)) (revokeBasedOn_evolve _ _ _ _ _))
          ((idsSub_updTok s.toks tok (fun x => { x with revoked := true }) (fun _ => rfl)).trans (revokeBasedOn_idsSub _ _ _ _))
      · exact adv_toks s _ (evolve_updTok _ _ _ _ (fun t => keeps_revoke t)) (idsSub_updTok _ _ _ (fun _ => rfl))
  | revokeGrant gid =>
    simp only [step]
    split
    · exact Adv.refl s
    · exact revokeGr_adv s gid
  | revokeClient u c =>
    simp only [step]
    split
    · exact Adv.refl s
    · exact foldl_revokeGr_adv _ s
  | revokeUser u =>
    simp only [step]
    split
    · exact Adv.refl s
    · exact foldl_revokeGr_adv _ s
  | logoutAll u =>
    simp only [step]
    split
    · exact Adv.refl s
    · exact foldl_revokeGr_adv _ s
  | remove gid =>
    simp only [step]
    split
    · exact Adv.refl s
    · exact ⟨evolve_filter _ _ _, Nat.le_refl _, Nat.le_refl _, fun hi => inv_of_idsSub (Nat.le_refl _) (idsSub_filter _ _) hi⟩


theorem uniq_of_pairwise {l : List Tok} (h : l.Pairwise (fun a b => a.id ≠ b.id)) {a b : Tok}
    (ha : a ∈ l) (hb : b ∈ l) (hab : a.id = b.id) : a = b := by
  induction l with
  | nil => simp at ha
  | cons x xs ih =>
    rw [List.pairwise_cons] at h
    rcases List.mem_cons.mp ha with rfl | ha'
    · rcases List.mem_cons.mp hb with rfl | hb'
      · rfl
      · exact absurd hab (h.1 b hb')
    · rcases List.mem_cons.mp hb with rfl | hb'
      · exact absurd hab.symm (h.1 a ha')
      · exact ih h.2 ha' hb'

theorem inv_uniq {s : St} (hi : Inv s) {a b : Tok} (ha : a ∈ s.toks) (hb : b ∈ s.toks) (hab : a.id = b.id) : a = b :=
  uniq_of_pairwise (by have := hi.1; simpa [ids, List.pairwise_map] using this) ha hb hab

theorem inv_lt {s : St} (hi : Inv s) {a : Tok} (ha : a ∈ s.toks) : a.id < s.next :=
  hi.2 a.id (List.mem_map.mpr ⟨a, ha, rfl⟩)

theorem findTok_mem {s : St} {c : Nat} {t : Tok} (h : findTok s c = some t) : t ∈ s.toks ∧ t.id = c := by
  unfold findTok at h
  exact ⟨List.mem_of_find?_eq_some h, by simpa using List.find?_some h⟩

theorem inv_init : Inv {} := ⟨by simp [ids], by simp [ids]⟩

theorem run_adv (cfg : Cfg) (ops : List Op) (s : St) : Adv s (run cfg s ops).1 := by
  induction ops generalizing s with
  | nil => exact Adv.refl s
  | cons op ops ih =>
    simp only [run]
    exact (step_adv cfg s op).trans (ih _)

/-- the identity invariant holds in every reachable state -/
theorem inv_reachable (cfg : Cfg) (ops : List Op) : Inv (run cfg {} ops).1 :=
  (run_adv cfg ops {}).inv inv_init

theorem findTok_of_mem {s : St} (hi : Inv s) {t : Tok} (ht : t ∈ s.toks) : findTok s t.id = some t := by
  unfold findTok
  cases h : s.toks.find? (fun x => x.id = t.id) with
  | none =>
    have := List.find?_eq_none.mp h t ht
    simp at this
  | some t' =>
    have h1 := List.mem_of_find?_eq_some h
    have h2 : t'.id = t.id := by simpa using List.find?_some h
    rw [inv_uniq hi h1 ht h2]

end Idpy.Provider
