import IdpyVerif.Model.Provider
namespace Idpy.Provider

/-- what every operation preserves about an existing token (everything except `used`,
    `mints`, and `revoked` which may only be set) -/
structure Keeps (t t' : Tok) : Prop where
  id : t'.id = t.id
  gid : t'.gid = t.gid
  cls : t'.cls = t.cls
  basedOn : t'.basedOn = t.basedOn
  maxUsage : t'.maxUsage = t.maxUsage
  exp : t'.exp = t.exp
  scope : t'.scope = t.scope
  revoked : t.revoked = true → t'.revoked = true

theorem Keeps.refl (t : Tok) : Keeps t t := ⟨rfl, rfl, rfl, rfl, rfl, rfl, rfl, fun h => h⟩
theorem Keeps.trans {a b c : Tok} (h1 : Keeps a b) (h2 : Keeps b c) : Keeps a c :=
  ⟨h2.id.trans h1.id, h2.gid.trans h1.gid, h2.cls.trans h1.cls, h2.basedOn.trans h1.basedOn,
   h2.maxUsage.trans h1.maxUsage, h2.exp.trans h1.exp, h2.scope.trans h1.scope,
   fun h => h2.revoked (h1.revoked h)⟩

/-- token list `b` evolved from `a`: every token of `b` is an old one (identity kept) or has a
    fresh id (≥ n) -/
def Evolve (n : Nat) (a b : List Tok) : Prop :=
  ∀ t' ∈ b, (∃ t ∈ a, Keeps t t') ∨ n ≤ t'.id

theorem Evolve.refl (n : Nat) (a : List Tok) : Evolve n a a :=
  fun t h => Or.inl ⟨t, h, Keeps.refl t⟩

theorem Evolve.trans {n m : Nat} {a b c : List Tok} (hnm : n ≤ m) (h1 : Evolve n a b) (h2 : Evolve m b c) :
    Evolve n a c := by
  intro t' ht'
  rcases h2 t' ht' with ⟨t, ht, hk⟩ | hf
  · rcases h1 t ht with ⟨t0, ht0, hk0⟩ | hf0
    · exact Or.inl ⟨t0, ht0, hk0.trans hk⟩
    · exact Or.inr (by rw [hk.id]; exact hf0)
  · exact Or.inr (Nat.le_trans hnm hf)

theorem Evolve.mono {n m : Nat} {a b : List Tok} (hnm : m ≤ n) (h : Evolve n a b) : Evolve m a b := by
  intro t' ht'
  rcases h t' ht' with h1 | h2
  · exact Or.inl h1
  · exact Or.inr (Nat.le_trans hnm h2)

/-- mapping with a function that keeps identity -/
theorem evolve_map (n : Nat) (a : List Tok) (f : Tok → Tok) (hf : ∀ t, Keeps t (f t)) :
    Evolve n a (a.map f) := by
  intro t' ht'
  obtain ⟨t, ht, rfl⟩ := List.mem_map.mp ht'
  exact Or.inl ⟨t, ht, hf t⟩

theorem evolve_updTok (n : Nat) (a : List Tok) (id : Nat) (f : Tok → Tok) (hf : ∀ t, Keeps t (f t)) :
    Evolve n a (updTok a id f) := by
  unfold updTok
  apply evolve_map
  intro t; split
  · exact hf t
  · exact Keeps.refl t

theorem evolve_filter (n : Nat) (a : List Tok) (p : Tok → Bool) : Evolve n a (a.filter p) :=
  fun t ht => Or.inl ⟨t, (List.mem_filter.mp ht).1, Keeps.refl t⟩

theorem evolve_append_fresh (n : Nat) (a b : List Tok) (t : Tok) (h : Evolve n a b) (ht : n ≤ t.id) :
    Evolve n a (b ++ [t]) := by
  intro t' ht'
  rcases List.mem_append.mp ht' with h1 | h1
  · exact h t' h1
  · simp at h1; subst h1; exact Or.inr ht

theorem keeps_used (t : Tok) (u : Nat) : Keeps t { t with used := u } := ⟨rfl, rfl, rfl, rfl, rfl, rfl, rfl, fun h => h⟩
theorem keeps_revoke (t : Tok) : Keeps t { t with revoked := true } := ⟨rfl, rfl, rfl, rfl, rfl, rfl, rfl, fun _ => rfl⟩
theorem keeps_mints (t : Tok) (m : List Cls) : Keeps t { t with mints := m } := ⟨rfl, rfl, rfl, rfl, rfl, rfl, rfl, fun h => h⟩

theorem keeps_ite_revoke (t : Tok) (c : Prop) [Decidable c] : Keeps t (if c then { t with revoked := true } else t) := by
  split
  · exact keeps_revoke t
  · exact Keeps.refl t

/-! ### primitives -/

theorem mint_ok_next {cfg s g cls base sc s' id} (h : mint cfg s g cls base sc = .ok s' id) :
    s'.next = s.next + 1 ∧ id = s.next ∧ s'.now = s.now ∧ s'.grants = s.grants ∧ s'.pending = s.pending := by
  unfold mint at h
  split at h
  · simp at h
  · split at h
    · simp at h; obtain ⟨rfl, rfl⟩ := h; simp [newTok]
    · split at h
      · simp at h
      · split at h
        · simp at h
        · split at h
          · simp at h
          · simp at h; obtain ⟨rfl, rfl⟩ := h; simp [newTok]

theorem mint_ok_evolve {cfg s g cls base sc s' id} (h : mint cfg s g cls base sc = .ok s' id) :
    Evolve s.next s.toks s'.toks := by
  unfold mint at h
  split at h
  · simp at h
  · split at h
    · simp at h; obtain ⟨rfl, rfl⟩ := h
      exact evolve_append_fresh _ _ _ _ (Evolve.refl _ _) (by simp [newTok])
    · split at h
      · simp at h
      · split at h
        · simp at h
        · split at h
          · simp at h
          · simp at h; obtain ⟨rfl, rfl⟩ := h
            exact evolve_append_fresh _ _ _ _ (evolve_updTok _ _ _ _ (fun t => keeps_used t _)) (by simp [newTok])

theorem decUsed_evolve (n : Nat) (s : St) (id : Nat) : Evolve n s.toks (decUsed s id).toks :=
  evolve_updTok _ _ _ _ (fun t => keeps_used t _)
theorem incUsed_evolve (n : Nat) (s : St) (id : Nat) : Evolve n s.toks (incUsed s id).toks :=
  evolve_updTok _ _ _ _ (fun t => keeps_used t _)

theorem revokeBasedOn_evolve (n fuel : Nat) (toks : List Tok) (gid v : Nat) :
    Evolve n toks (revokeBasedOn fuel toks gid v) := by
  induction fuel generalizing toks v with
  | zero => exact Evolve.refl _ _
  | succ f ih =>
    unfold revokeBasedOn
    simp only
    have h1 : Evolve n toks (toks.map (fun t => if t.gid = gid ∧ t.basedOn = some v then { t with revoked := true } else t)) :=
      evolve_map _ _ _ (fun t => keeps_ite_revoke t _)
    generalize (toks.map (fun t => if t.gid = gid ∧ t.basedOn = some v then { t with revoked := true } else t)) = toks1 at h1
    generalize ((toks.filter (fun t => decide (t.gid = gid ∧ t.basedOn = some v))).map (·.id)) = kids
    induction kids generalizing toks1 with
    | nil => simpa using h1
    | cons k ks ihk =>
      simp only [List.foldl_cons]
      exact ihk _ (Evolve.trans (Nat.le_refl n) h1 (ih toks1 k))

theorem revokeGr_evolve (n : Nat) (s : St) (gid : Nat) : Evolve n s.toks (revokeGr s gid).toks := by
  unfold revokeGr revokeGrantToks
  exact evolve_map _ _ _ (fun t => keeps_ite_revoke t _)

theorem revokeGr_next (s : St) (gid : Nat) : (revokeGr s gid).next = s.next ∧ (revokeGr s gid).now = s.now := by
  simp [revokeGr]

theorem foldl_revokeGr_evolve (n : Nat) (gs : List Nat) (s : St) : Evolve n s.toks (gs.foldl revokeGr s).toks := by
  induction gs generalizing s with
  | nil => exact Evolve.refl _ _
  | cons g gs ih =>
    simp only [List.foldl_cons]
    exact Evolve.trans (Nat.le_refl n) (revokeGr_evolve n s g) (ih _)

theorem foldl_revokeGr_next (gs : List Nat) (s : St) :
    (gs.foldl revokeGr s).next = s.next ∧ (gs.foldl revokeGr s).now = s.now := by
  induction gs generalizing s with
  | nil => simp
  | cons g gs ih =>
    simp only [List.foldl_cons]
    rw [(ih _).1, (ih _).2]; exact revokeGr_next s g



/-! ### identity invariant: token values are unique and below the fresh counter -/

def ids (l : List Tok) : List Nat := l.map (·.id)

def Inv (s : St) : Prop := (ids s.toks).Pairwise (· ≠ ·) ∧ ∀ i ∈ ids s.toks, i < s.next

/-- `b` keeps (a sub-list of) the identities of `a` -/
def IdsSub (a b : List Tok) : Prop := (ids b).Sublist (ids a)

theorem IdsSub.refl (a : List Tok) : IdsSub a a := List.Sublist.refl _
theorem IdsSub.trans {a b c : List Tok} (h1 : IdsSub a b) (h2 : IdsSub b c) : IdsSub a c :=
  List.Sublist.trans h2 h1

theorem idsSub_map (a : List Tok) (f : Tok → Tok) (hf : ∀ t, (f t).id = t.id) : IdsSub a (a.map f) := by
  unfold IdsSub ids
  rw [List.map_map]
  have : ((fun t => t.id) ∘ f) = (fun t => t.id) := by funext t; simp [hf]
  rw [this]; exact List.Sublist.refl _

theorem idsSub_updTok (a : List Tok) (id : Nat) (f : Tok → Tok) (hf : ∀ t, (f t).id = t.id) :
    IdsSub a (updTok a id f) := by
  unfold updTok
  apply idsSub_map
  intro t; split
  · exact hf t
  · rfl

theorem idsSub_filter (a : List Tok) (p : Tok → Bool) : IdsSub a (a.filter p) := by
  unfold IdsSub ids
  exact List.Sublist.map _ List.filter_sublist

theorem inv_of_idsSub {s : St} {toks : List Tok} {n : Nat} (hn : s.next ≤ n) (h : IdsSub s.toks toks) (hi : Inv s) :
    Inv { s with toks := toks, next := n } :=
  ⟨List.Pairwise.sublist h hi.1, fun i hm => Nat.lt_of_lt_of_le (hi.2 i (h.subset hm)) hn⟩

theorem inv_append_fresh {s : St} {toks : List Tok} (t : Tok) (h : IdsSub s.toks toks) (ht : t.id = s.next)
    (hi : Inv s) : Inv { s with toks := toks ++ [t], next := s.next + 1 } := by
  have h1 := inv_of_idsSub (Nat.le_refl s.next) h hi
  constructor
  · show (ids (toks ++ [t])).Pairwise (· ≠ ·)
    simp only [ids, List.map_append, List.map_cons, List.map_nil]
    rw [List.pairwise_append]
    refine ⟨h1.1, by simp, ?_⟩
    intro a ha b hb
    simp at hb; subst hb
    have := h1.2 a ha
    simp only at this; omega
  · intro i hm
    simp only [ids, List.map_append, List.map_cons, List.map_nil, List.mem_append, List.mem_singleton] at hm
    rcases hm with hm | rfl
    · have := h1.2 i hm; simp only at this ⊢; omega
    · simp only; omega

theorem revokeBasedOn_idsSub (fuel : Nat) (toks : List Tok) (gid v : Nat) :
    IdsSub toks (revokeBasedOn fuel toks gid v) := by
  induction fuel generalizing toks v with
  | zero => exact IdsSub.refl _
  | succ f ih =>
    unfold revokeBasedOn
    simp only
    have h1 : IdsSub toks (toks.map (fun t => if t.gid = gid ∧ t.basedOn = some v then { t with revoked := true } else t)) :=
      idsSub_map _ _ (fun t => by split <;> rfl)
    generalize (toks.map (fun t => if t.gid = gid ∧ t.basedOn = some v then { t with revoked := true } else t)) = toks1 at h1
    generalize ((toks.filter (fun t => decide (t.gid = gid ∧ t.basedOn = some v))).map (·.id)) = kids
    induction kids generalizing toks1 with
    | nil => simpa using h1
    | cons k ks ihk =>
      simp only [List.foldl_cons]
      exact ihk _ (h1.trans (ih toks1 k))

theorem mint_ok_inv {cfg s g cls base sc s' id} (h : mint cfg s g cls base sc = .ok s' id) (hi : Inv s) : Inv s' := by
  unfold mint at h
  split at h
  · simp at h
  · split at h
    · simp at h; obtain ⟨rfl, rfl⟩ := h
      exact inv_append_fresh _ (IdsSub.refl _) (by simp [newTok]) hi
    · split at h
      · simp at h
      · split at h
        · simp at h
        · split at h
          · simp at h
          · simp at h; obtain ⟨rfl, rfl⟩ := h
            exact inv_append_fresh _ (idsSub_updTok _ _ _ (fun t => rfl)) (by simp [newTok]) hi

/-- facts every operation satisfies, as a relation between pre- and post-state -/
structure Adv (s s' : St) : Prop where
  ev : Evolve s.next s.toks s'.toks
  next : s.next ≤ s'.next
  now : s.now ≤ s'.now
  inv : Inv s → Inv s'

theorem Adv.refl (s : St) : Adv s s := ⟨Evolve.refl _ _, Nat.le_refl _, Nat.le_refl _, fun h => h⟩
theorem Adv.trans {a b c : St} (h1 : Adv a b) (h2 : Adv b c) : Adv a c :=
  ⟨Evolve.trans h1.next h1.ev h2.ev, Nat.le_trans h1.next h2.next, Nat.le_trans h1.now h2.now,
   fun h => h2.inv (h1.inv h)⟩

theorem adv_toks (s : St) (toks : List Tok) (h : Evolve s.next s.toks toks) (hs : IdsSub s.toks toks) :
    Adv s { s with toks := toks } :=
  ⟨h, Nat.le_refl _, Nat.le_refl _, fun hi => inv_of_idsSub (Nat.le_refl _) hs hi⟩

theorem adv_frame (s : St) (now : Nat) (p : List Req) (g : List Gr) (h : s.now ≤ now) :
    Adv s { s with now := now, pending := p, grants := g } :=
  ⟨Evolve.refl _ _, Nat.le_refl _, h, fun hi => hi⟩

theorem mint_ok_adv {cfg s g cls base sc s' id} (h : mint cfg s g cls base sc = .ok s' id) : Adv s s' := by
  have h1 := mint_ok_next h
  exact ⟨mint_ok_evolve h, by omega, by omega, mint_ok_inv h⟩

theorem decUsed_adv (s : St) (id : Nat) : Adv s (decUsed s id) :=
  adv_toks s _ (decUsed_evolve _ s id) (idsSub_updTok _ _ _ (fun _ => rfl))
theorem incUsed_adv (s : St) (id : Nat) : Adv s (incUsed s id) :=
  adv_toks s _ (incUsed_evolve _ s id) (idsSub_updTok _ _ _ (fun _ => rfl))

theorem mintAfterDec_adv (cfg : Cfg) (s : St) (g : Gr) (cls : Cls) (code : Nat) (want : Bool) :
    Adv s (mintAfterDec cfg s g cls code want).1 := by
  unfold mintAfterDec
  split
  · split
    · rename_i h; exact (decUsed_adv s code).trans (mint_ok_adv h)
    · exact decUsed_adv s code
  · exact Adv.refl s

theorem mintExtra_adv (cfg : Cfg) (s : St) (g : Gr) (cls : Cls) (base : Nat) (sc : List Str) (want : Bool) :
    Adv s (mintExtra cfg s g cls base sc want).1 := by
  unfold mintExtra
  split
  · split
    · rename_i h; exact mint_ok_adv h
    · exact Adv.refl s
  · exact Adv.refl s

theorem setMints_adv (s : St) (id : Option Nat) (m : List Cls) : Adv s (setMints s id m) := by
  unfold setMints
  split
  · exact Adv.refl s
  · exact adv_toks s _ (evolve_updTok _ _ _ _ (fun t => keeps_mints t _)) (idsSub_updTok _ _ _ (fun _ => rfl))

theorem revokeIf_adv (s : St) (c : Bool) (id : Nat) : Adv s (revokeIf s c id) := by
  unfold revokeIf
  split
  · exact adv_toks s _ (evolve_updTok _ _ _ _ (fun t => keeps_revoke t)) (idsSub_updTok _ _ _ (fun _ => rfl))
  · exact Adv.refl s

theorem revokeGr_adv (s : St) (gid : Nat) : Adv s (revokeGr s gid) :=
  ⟨revokeGr_evolve _ s gid, by simp [revokeGr], by simp [revokeGr],
   fun hi => inv_of_idsSub (Nat.le_refl _) (idsSub_map _ _ (fun t => by split <;> rfl)) hi⟩

theorem foldl_revokeGr_adv (gs : List Nat) (s : St) : Adv s (gs.foldl revokeGr s) := by
  induction gs generalizing s with
  | nil => exact Adv.refl s
  | cons g gs ih =>
    simp only [List.foldl_cons]
    exact (revokeGr_adv s g).trans (ih _)

/-- every API step advances the state monotonically -/
theorem step_adv (cfg : Cfg) (s : St) (op : Op) : Adv s (step cfg s op).1 := by
  cases op with
  | tick n => exact ⟨Evolve.refl _ _, Nat.le_refl _, by simp [step], fun hi => hi⟩
  | authorize user client scope redirect =>
    simp only [step]
    split
    · rename_i s2 c h
      have h1 := mint_ok_adv h
      have h2 := (mint_ok_next h).1
      refine ⟨?_, ?_, h1.now, ?_⟩
      · exact Evolve.mono (by simp) h1.ev
      · simp only [] at h2 ⊢; omega
      · intro hi
        exact h1.inv (inv_of_idsSub (Nat.le_succ _) (IdsSub.refl _) hi)
    · exact Adv.refl s
  | tokenParse client code redirect =>
    simp only [step]
    split
    · exact Adv.refl s
    · split
      · exact Adv.refl s
      · split
        · exact Adv.refl s
        · split
          · exact adv_toks s _ (revokeBasedOn_evolve _ _ _ _ _) (revokeBasedOn_idsSub _ _ _ _)
          · split
            · exact Adv.refl s
            · exact ⟨Evolve.refl _ _, Nat.le_refl _, Nat.le_refl _, fun hi => hi⟩
  | tokenProcess idx =>
    simp only [step]
    split
    · exact Adv.refl s
    · have h0 : ∀ (p : List Req), Adv s { s with pending := p } := fun p => ⟨Evolve.refl _ _, Nat.le_refl _, Nat.le_refl _, fun hi => hi⟩
      split
      · exact h0 _
      · split
        · exact h0 _
        · split
          · exact h0 _
          · split
            · exact h0 _
            · split
              · exact h0 _
              · split
                · exact h0 _
                · exact (h0 _).trans (incUsed_adv _ _)
              · rename_i h
                exact (h0 _).trans ((mint_ok_adv h).trans (((mintAfterDec_adv _ _ _ _ _ _).trans (mintAfterDec_adv _ _ _ _ _ _)).trans (incUsed_adv _ _)))
  | refresh client rt scope =>
    simp only [step]
    split
    · exact Adv.refl s
    · split
      · exact Adv.refl s
      · split
        · exact Adv.refl s
        · split
          · exact Adv.refl s
          · split
            · exact Adv.refl s
            · split
              · exact Adv.refl s
              · split
                · exact Adv.refl s
                · exact Adv.refl s
                · rename_i h
                  exact (mint_ok_adv h).trans ((mintExtra_adv _ _ _ _ _ _ _).trans ((setMints_adv _ _ _).trans
                    ((mintExtra_adv _ _ _ _ _ _ _).trans ((incUsed_adv _ _).trans (revokeIf_adv _ _ _)))))
  | userinfo tok =>
    simp only [step]
    repeat (first | exact Adv.refl s | split)
  | introspect c tok =>
    simp only [step]
    repeat (first | exact Adv.refl s | split)
  | revokeEp c tok =>
    simp only [step]
    repeat (first | exact Adv.refl s | exact adv_toks s _ (evolve_updTok _ _ _ _ (fun t => keeps_revoke t)) (idsSub_updTok _ _ _ (fun _ => rfl)) | split)
  | revokeTok tok r =>
    simp only [step]
    split
    · exact Adv.refl s
    · split
      · exact adv_toks s _ (Evolve.trans (Nat.le_refl _) (evolve_updTok _ _ _ _ (fun t => keeps_revoke t)) (revokeBasedOn_evolve _ _ _ _ _))
          ((idsSub_updTok s.toks tok (fun x => { x with revoked := true }) (fun _ => rfl)).trans (revokeBasedOn_idsSub _ _ _ _))
      · exact adv_toks s _ (evolve_updTok _ _ _ _ (fun t => keeps_revoke t)) (idsSub_updTok _ _ _ (fun _ => rfl))
  | revokeGrant gid =>
    simp only [step]
    split
    · exact Adv.refl s
    · exact revokeGr_adv s gid
  | revokeClient u c =>
    simp only [step]
    split
    · exact Adv.refl s
    · exact foldl_revokeGr_adv _ s
  | revokeUser u =>
    simp only [step]
    split
    · exact Adv.refl s
    · exact foldl_revokeGr_adv _ s
  | remove gid =>
    simp only [step]
    split
    · exact Adv.refl s
    · exact ⟨evolve_filter _ _ _, Nat.le_refl _, Nat.le_refl _, fun hi => inv_of_idsSub (Nat.le_refl _) (idsSub_filter _ _) hi⟩


theorem uniq_of_pairwise {l : List Tok} (h : l.Pairwise (fun a b => a.id ≠ b.id)) {a b : Tok}
    (ha : a ∈ l) (hb : b ∈ l) (hab : a.id = b.id) : a = b := by
  induction l with
  | nil => simp at ha
  | cons x xs ih =>
    rw [List.pairwise_cons] at h
    rcases List.mem_cons.mp ha with rfl | ha'
    · rcases List.mem_cons.mp hb with rfl | hb'
      · rfl
      · exact absurd hab (h.1 b hb')
    · rcases List.mem_cons.mp hb with rfl | hb'
      · exact absurd hab.symm (h.1 a ha')
      · exact ih h.2 ha' hb'

theorem inv_uniq {s : St} (hi : Inv s) {a b : Tok} (ha : a ∈ s.toks) (hb : b ∈ s.toks) (hab : a.id = b.id) : a = b :=
  uniq_of_pairwise (by have := hi.1; simpa [ids, List.pairwise_map] using this) ha hb hab

theorem inv_lt {s : St} (hi : Inv s) {a : Tok} (ha : a ∈ s.toks) : a.id < s.next :=
  hi.2 a.id (List.mem_map.mpr ⟨a, ha, rfl⟩)

theorem inv_init : Inv {} := ⟨by simp [ids], by simp [ids]⟩

theorem run_adv (cfg : Cfg) (ops : List Op) (s : St) : Adv s (run cfg s ops).1 := by
  induction ops generalizing s with
  | nil => exact Adv.refl s
  | cons op ops ih =>
    simp only [run]
    exact (step_adv cfg s op).trans (ih _)

/-- the identity invariant holds in every reachable state -/
theorem inv_reachable (cfg : Cfg) (ops : List Op) : Inv (run cfg {} ops).1 :=
  (run_adv cfg ops {}).inv inv_init

theorem findTok_of_mem {s : St} (hi : Inv s) {t : Tok} (ht : t ∈ s.toks) : findTok s t.id = some t := by
  unfold findTok
  cases h : s.toks.find? (fun x => x.id = t.id) with
  | none =>
    have := List.find?_eq_none.mp h t ht
    simp at this
  | some t' =>
    have h1 := List.mem_of_find?_eq_some h
    have h2 : t'.id = t.id := by simpa using List.find?_some h
    rw [inv_uniq hi h1 ht h2]

end Idpy.Provider
