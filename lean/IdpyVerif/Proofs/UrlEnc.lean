import IdpyVerif.Model.UrlEnc
namespace Idpy.UrlEnc

def AllBytes (bs : List Nat) : Prop := ∀ b ∈ bs, b < 256

theorem unhex_hexd (n : Nat) (h : n < 16) : unhex (hexd n) = some n := by
  rw [hexd_eq, unhex_eq]
  split
  · rename_i h10
    rw [if_pos (by omega)]; congr 1; omega
  · rename_i h10
    rw [if_neg (by omega), if_pos (by omega)]; congr 1; omega

theorem safe_not_special {c : Nat} (h : isSafe c = true) : c ≠ plus ∧ c ≠ pct ∧ c ≠ amp ∧ c ≠ eqc ∧ c ≠ sp := by
  rw [isSafe_eq] at h
  simp only [decide_eq_true_eq] at h
  rw [plus_eq, pct_eq, amp_eq, eqc_eq, sp_eq]; omega

theorem hexd_safe (n : Nat) (h : n < 16) : isSafe (hexd n) = true := by
  rw [hexd_eq, isSafe_eq]; simp only [decide_eq_true_eq]; split <;> omega

/-- one step of the unquote loop, whatever follows -/
theorem unquotePlus_cons_plain (c : Nat) (tail : Str) (h1 : c ≠ pct) :
    unquotePlus (c :: tail) = plusToSp c :: unquotePlus tail := by
  match tail with
  | [] => simp [unquotePlus]
  | [d] => simp [unquotePlus]
  | a :: b :: rest => rw [unquotePlus]; simp [h1]

theorem unquotePlus_quoteByte (b : Nat) (hb : b < 256) (tail : Str) :
    unquotePlus (quoteByte b ++ tail) = b :: unquotePlus tail := by
  unfold quoteByte
  split
  · rename_i hs
    have := safe_not_special hs
    simp only [List.singleton_append]
    rw [unquotePlus_cons_plain _ _ this.2.1]
    simp [plusToSp, this.1]
  · split
    · rename_i hsp
      simp only [List.singleton_append]
      rw [unquotePlus_cons_plain _ _ (by rw [plus_eq, pct_eq]; omega)]
      simp [plusToSp, hsp]
    · simp only [List.cons_append, List.nil_append]
      rw [unquotePlus]
      rw [if_pos rfl, unhex_hexd _ (by omega), unhex_hexd _ (by omega)]
      simp only
      congr 1; omega

/-- **decode ∘ encode = id**, with any continuation (so it composes inside `urlencode`) -/
theorem unquotePlus_quotePlus_append (bs : List Nat) (h : AllBytes bs) (tail : Str) :
    unquotePlus (quotePlus bs ++ tail) = bs ++ unquotePlus tail := by
  induction bs with
  | nil => simp [quotePlus]
  | cons b bs ih =>
    simp only [quotePlus, List.append_assoc]
    rw [unquotePlus_quoteByte b (h b (by simp)), ih (fun x hx => h x (by simp [hx]))]
    simp

theorem unquotePlus_quotePlus (bs : List Nat) (h : AllBytes bs) : unquotePlus (quotePlus bs) = bs := by
  have := unquotePlus_quotePlus_append bs h []
  simpa [unquotePlus] using this

/-- `quote_plus` is injective on byte strings -/
theorem quotePlus_injective (a b : List Nat) (ha : AllBytes a) (hb : AllBytes b) (h : quotePlus a = quotePlus b) : a = b := by
  rw [← unquotePlus_quotePlus a ha, ← unquotePlus_quotePlus b hb, h]

/-- the output alphabet of `quote_plus`: unreserved characters, '+' and '%' -/
theorem quotePlus_alphabet (bs : List Nat) (h : AllBytes bs) : ∀ c ∈ quotePlus bs, isSafe c = true ∨ c = plus ∨ c = pct := by
  induction bs with
  | nil => intro c hc; simp [quotePlus] at hc
  | cons b bs ih =>
    intro c hc
    simp only [quotePlus, List.mem_append] at hc
    rcases hc with hc | hc
    · unfold quoteByte at hc
      split at hc
      · simp at hc; subst hc; left; assumption
      · split at hc
        · simp at hc; right; left; exact hc
        · simp at hc
          have hb := h b (by simp)
          rcases hc with rfl | rfl | rfl
          · right; right; rfl
          · left; exact hexd_safe _ (by omega)
          · left; exact hexd_safe _ (by omega)
    · exact ih (fun x hx => h x (by simp [hx])) c hc

theorem quotePlus_no (bs : List Nat) (h : AllBytes bs) (c : Nat)
    (hc : isSafe c = false) (h1 : c ≠ plus) (h2 : c ≠ pct) : c ∉ quotePlus bs := by
  intro hm
  rcases quotePlus_alphabet bs h c hm with h' | h' | h'
  · simp [hc] at h'
  · exact h1 h'
  · exact h2 h'

theorem amp_not_in_quote (bs : List Nat) (h : AllBytes bs) : amp ∉ quotePlus bs :=
  quotePlus_no bs h amp (by rw [isSafe_eq, amp_eq]; decide) (by rw [amp_eq, plus_eq]; decide) (by rw [amp_eq, pct_eq]; decide)
theorem eqc_not_in_quote (bs : List Nat) (h : AllBytes bs) : eqc ∉ quotePlus bs :=
  quotePlus_no bs h eqc (by rw [isSafe_eq, eqc_eq]; decide) (by rw [eqc_eq, plus_eq]; decide) (by rw [eqc_eq, pct_eq]; decide)

/-! ### splitting -/

theorem splitAll_no (c : Nat) (f : Str) (h : c ∉ f) : splitAll c f = [f] := by
  induction f with
  | nil => rfl
  | cons x xs ih =>
    have hx : x ≠ c := fun e => h (by simp [e])
    simp [splitAll, hx, ih (fun hm => h (by simp [hm]))]

theorem splitAll_field (c : Nat) (f rest : Str) (h : c ∉ f) : splitAll c (f ++ c :: rest) = f :: splitAll c rest := by
  induction f with
  | nil => simp [splitAll]
  | cons x xs ih =>
    have hx : x ≠ c := fun e => h (by simp [e])
    simp [splitAll, hx, ih (fun hm => h (by simp [hm]))]

theorem splitFirst_at (c : Nat) (k v : Str) (h : c ∉ k) : splitFirst c (k ++ c :: v) = (k, some v) := by
  induction k with
  | nil => simp [splitFirst]
  | cons x xs ih =>
    have hx : x ≠ c := fun e => h (by simp [e])
    simp [splitFirst, hx, ih (fun hm => h (by simp [hm]))]

def PairsOk (ps : List (List Nat × List Nat)) : Prop := ∀ p ∈ ps, AllBytes p.1 ∧ AllBytes p.2

theorem field_no_amp (k v : List Nat) (hk : AllBytes k) (hv : AllBytes v) : amp ∉ quotePlus k ++ eqc :: quotePlus v := by
  intro hm
  simp only [List.mem_append, List.mem_cons] at hm
  rcases hm with hm | hm | hm
  · exact amp_not_in_quote k hk hm
  · rw [amp_eq, eqc_eq] at hm; omega
  · exact amp_not_in_quote v hv hm

def fieldOf (keepBlank : Bool) (field : Str) : Option (List Nat × List Nat) :=
  if field.isEmpty then none else
  match splitFirst eqc field with
  | (_, none) => if keepBlank then some (unquotePlus field, []) else none
  | (k, some v) => if v.isEmpty ∧ ¬ keepBlank then none else some (unquotePlus k, unquotePlus v)

theorem parseQsl_eq (kb : Bool) (qs : Str) : parseQsl kb qs = (splitAll amp qs).filterMap (fieldOf kb) := rfl

theorem quotePlus_nil_iff (v : List Nat) : (quotePlus v).isEmpty = true ↔ v = [] := by
  cases v with
  | nil => simp [quotePlus]
  | cons b bs =>
    simp only [quotePlus, reduceCtorEq, iff_false]
    unfold quoteByte
    split
    · simp
    · split <;> simp

theorem fieldOf_field (kb : Bool) (k v : List Nat) (hk : AllBytes k) (hv : AllBytes v) :
    fieldOf kb (quotePlus k ++ eqc :: quotePlus v) = if v = [] ∧ kb = false then none else some (k, v) := by
  unfold fieldOf
  have hne : (quotePlus k ++ eqc :: quotePlus v).isEmpty = false := by simp
  rw [hne, splitFirst_at eqc _ _ (eqc_not_in_quote k hk)]
  simp only [Bool.false_eq_true, if_false]
  by_cases hv0 : v = []
  · subst hv0
    cases kb <;> simp [quotePlus, unquotePlus, unquotePlus_quotePlus k hk]
  · have : (quotePlus v).isEmpty = false := by
      cases h : (quotePlus v).isEmpty with
      | false => rfl
      | true => exact absurd ((quotePlus_nil_iff v).mp h) hv0
    simp [this, hv0, unquotePlus_quotePlus k hk, unquotePlus_quotePlus v hv]

def keepPair (kb : Bool) (p : List Nat × List Nat) : Bool := kb || !decide (p.2 = [])

theorem fieldOf_field' (kb : Bool) (k v : List Nat) (hk : AllBytes k) (hv : AllBytes v) :
    fieldOf kb (quotePlus k ++ eqc :: quotePlus v) = if keepPair kb (k, v) then some (k, v) else none := by
  rw [fieldOf_field kb k v hk hv]
  cases kb <;> by_cases hv0 : v = [] <;> simp [keepPair, hv0]

/-- **parse ∘ urlencode**: the pairs come back in order; blank values are dropped unless
    `keep_blank_values` -/
theorem parseQsl_urlencode (kb : Bool) (ps : List (List Nat × List Nat)) (h : PairsOk ps) :
    parseQsl kb (urlencode ps) = ps.filter (keepPair kb) := by
  rw [parseQsl_eq]
  induction ps with
  | nil => simp [urlencode, splitAll, fieldOf]
  | cons p ps ih =>
    obtain ⟨k, v⟩ := p
    have hp := h (k, v) (by simp)
    cases ps with
    | nil =>
      simp only [urlencode]
      rw [splitAll_no amp _ (field_no_amp k v hp.1 hp.2)]
      simp only [List.filterMap_cons, List.filterMap_nil, fieldOf_field' kb k v hp.1 hp.2, List.filter_cons, List.filter_nil]
      cases hkp : keepPair kb (k, v) <;> simp
    | cons q qs =>
      simp only [urlencode]
      have e : quotePlus k ++ eqc :: quotePlus v ++ amp :: urlencode (q :: qs)
          = (quotePlus k ++ eqc :: quotePlus v) ++ amp :: urlencode (q :: qs) := by simp
      rw [e, splitAll_field amp _ _ (field_no_amp k v hp.1 hp.2)]
      have ih' := ih (fun x hx => h x (by simp [hx]))
      rw [List.filterMap_cons, fieldOf_field' kb k v hp.1 hp.2, List.filter_cons]
      cases hkp : keepPair kb (k, v) <;> simp [ih']

end Idpy.UrlEnc
