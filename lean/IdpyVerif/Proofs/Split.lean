import IdpyVerif.Model.Split
namespace Idpy.Split

/-- the piece contains the two-character divider -/
def hasDiv (sep : Nat) : Str → Bool
  | [] => false
  | [_] => false
  | c1 :: c2 :: rest => (c1 = sep ∧ c2 = sep) || hasDiv sep (c2 :: rest)

/-- guard for an element that is followed by another one: it contains no divider and does not
    end in the separator character (otherwise its last character fuses with the divider) -/
def Inner (sep : Nat) (a : Str) : Prop := hasDiv sep a = false ∧ a.getLast? ≠ some sep

/-- guard for a whole list of parts -/
def SepFree (sep : Nat) : List Str → Prop
  | [] => False
  | [a] => hasDiv sep a = false
  | a :: b :: rest => Inner sep a ∧ SepFree sep (b :: rest)

theorem split2Aux_cons2 (sep c1 c2 : Nat) (rest cur : Str) :
    split2Aux sep (c1 :: c2 :: rest) cur =
      if c1 = sep ∧ c2 = sep then cur.reverse :: split2Aux sep rest []
      else split2Aux sep (c2 :: rest) (c1 :: cur) := by
  rw [split2Aux]

theorem split2Aux_last (sep : Nat) (a cur : Str) (h : hasDiv sep a = false) :
    split2Aux sep a cur = [cur.reverse ++ a] := by
  induction a generalizing cur with
  | nil => simp [split2Aux]
  | cons c cs ih =>
    cases cs with
    | nil => simp [split2Aux]
    | cons d ds =>
      have h' : ¬ (c = sep ∧ d = sep) ∧ hasDiv sep (d :: ds) = false := by
        simp [hasDiv] at h; exact ⟨fun hh => h.1 hh.1 hh.2, h.2⟩
      rw [split2Aux_cons2, if_neg h'.1, ih _ h'.2]
      simp

theorem split2Aux_inner (sep : Nat) (a rest cur : Str) (h : Inner sep a) :
    split2Aux sep (a ++ sep :: sep :: rest) cur = (cur.reverse ++ a) :: split2Aux sep rest [] := by
  induction a generalizing cur with
  | nil => simp [split2Aux]
  | cons c cs ih =>
    obtain ⟨hd, hl⟩ := h
    cases cs with
    | nil =>
      have hc : c ≠ sep := by simpa using hl
      simp only [List.cons_append, List.nil_append]
      rw [split2Aux_cons2, if_neg (by intro hh; exact hc hh.1), split2Aux_cons2, if_pos ⟨rfl, rfl⟩]
      simp
    | cons d ds =>
      have h' : ¬ (c = sep ∧ d = sep) ∧ hasDiv sep (d :: ds) = false := by
        simp [hasDiv] at hd; exact ⟨fun hh => hd.1 hh.1 hh.2, hd.2⟩
      have hl' : (d :: ds).getLast? ≠ some sep := by
        simpa [List.getLast?_cons_cons] using hl
      simp only [List.cons_append]
      rw [split2Aux_cons2, if_neg h'.1]
      have := ih (c :: cur) ⟨h'.2, hl'⟩
      simp only [List.cons_append] at this
      rw [this]; simp

theorem split_join (sep : Nat) (p : List Str) (h : SepFree sep p) : split2 sep (join2 sep p) = p := by
  unfold split2
  induction p with
  | nil => exact absurd h (by simp [SepFree])
  | cons a as ih =>
    cases as with
    | nil => simp [join2, split2Aux_last sep a [] h]
    | cons b bs =>
      obtain ⟨ha, hrest⟩ := h
      simp only [join2]
      rw [split2Aux_inner sep a _ [] ha, ih hrest]; simp

theorem join_injective (sep : Nat) (p q : List Str) (hp : SepFree sep p) (hq : SepFree sep q)
    (h : join2 sep p = join2 sep q) : p = q := by
  rw [← split_join sep p hp, ← split_join sep q hq, h]

/-! single-character split -/

theorem split1Aux_nosep (sep : Nat) (a cur : Str) (h : sep ∉ a) :
    split1Aux sep a cur = [cur.reverse ++ a] := by
  induction a generalizing cur with
  | nil => simp [split1Aux]
  | cons c cs ih =>
    have hc : c ≠ sep := fun e => h (by simp [e])
    have hcs : sep ∉ cs := fun e => h (by simp [e])
    simp [split1Aux, hc, ih _ hcs]

theorem split1Aux_part (sep : Nat) (a rest cur : Str) (h : sep ∉ a) :
    split1Aux sep (a ++ sep :: rest) cur = (cur.reverse ++ a) :: split1Aux sep rest [] := by
  induction a generalizing cur with
  | nil => simp [split1Aux]
  | cons c cs ih =>
    have hc : c ≠ sep := fun e => h (by simp [e])
    have hcs : sep ∉ cs := fun e => h (by simp [e])
    simp [split1Aux, hc, ih _ hcs]

theorem split1_join1 (sep : Nat) (p : List Str) (hne : p ≠ []) (h : ∀ a ∈ p, sep ∉ a) :
    split1 sep (join1 sep p) = p := by
  unfold split1
  induction p with
  | nil => exact absurd rfl hne
  | cons a as ih =>
    cases as with
    | nil => simp [join1, split1Aux_nosep sep a [] (h a (by simp))]
    | cons b bs =>
      simp only [join1]
      rw [split1Aux_part sep a _ [] (h a (by simp)), ih (by simp) (fun x hx => h x (by simp [hx]))]
      simp

end Idpy.Split
