import IdpyVerif.Driver.C14
import IdpyVerif.Driver.C17
import IdpyVerif.Driver.Prov
import IdpyVerif.Driver.Msg
import IdpyVerif.Driver.Redirect
import IdpyVerif.Driver.Pkce
import IdpyVerif.Driver.ClientAuthn
import IdpyVerif.Driver.Jar
import IdpyVerif.Driver.Registration
import IdpyVerif.Driver.Subject
import IdpyVerif.Driver.Claims
import IdpyVerif.Driver.Resolve
import IdpyVerif.Driver.FileStore
import IdpyVerif.Driver.IdToken
import IdpyVerif.Driver.RPState
import IdpyVerif.Driver.Interop
import IdpyVerif.Driver.MsgRules
open Idpy

structure DState where
  sdb : SessionDB.DB := []
  prov : Driver.Prov.DS := {}
  ca : Driver.ClientAuthn.DS := {}
  jar : Driver.Jar.DS := {}
  reg : Registration.St := {}
  fs : Driver.FileStore.DS := {}
  rps : RPState.Handler := []

def dispatch (st : DState) (fields : List String) : DState × String :=
  match fields with
  | "lv" :: args => (st, (Driver.C14.codec args).getD "bad-op")
  | "res" :: args => (st, (Driver.Resolve.handle args).getD "bad-op")
  | "claims" :: args => (st, (Driver.Claims.handle args).getD "bad-op")
  | "sub" :: args => (st, (Driver.Subject.handle args).getD "bad-op")
  | "pkce" :: args => (st, (Driver.Pkce.handle args).getD "bad-op")
  | "redir" :: args => (st, (Driver.Redirect.handle args).getD "bad-op")
  | "msg" :: args => (st, (Driver.Msg.handle args).getD "bad-op")
  | "rules" :: args => (st, (Driver.MsgRules.handle args).getD "bad-op")
  | "cookie" :: args => (st, (Driver.C17.handle args).getD "bad-op")
  | "interop" :: args => (st, (Driver.Interop.handle args).getD "bad-op")
  | "rps" :: args =>
    let (h', out) := Driver.RPState.stepLine st.rps args
    ({ st with rps := h' }, out)
  | "idt" :: args => (st, (Driver.IdToken.handle args).getD "bad-op")
  | "heap" :: args => (st, (Driver.FileStore.heapLine args).getD "bad-op")
  | "ie" :: args => (st, (Driver.FileStore.ieLine args).getD "bad-op")
  | "fs" :: args =>
    let (f', out) := Driver.FileStore.stepLine st.fs args
    ({ st with fs := f' }, out)
  | "reg" :: args =>
    let (r', out) := Driver.Registration.stepLine st.reg args
    ({ st with reg := r' }, out)
  | "jar" :: args =>
    let (j', out) := Driver.Jar.stepLine st.jar args
    ({ st with jar := j' }, out)
  | "ca" :: args =>
    let (c', out) := Driver.ClientAuthn.stepLine st.ca args
    ({ st with ca := c' }, out)
  | "prov" :: args =>
    let (p', out) := Driver.Prov.stepLine st.prov args
    ({ st with prov := p' }, out)
  | "sdb" :: args =>
    let (db', out) := Driver.C14.stepLine st.sdb args
    ({ st with sdb := db' }, out)
  | _ => (st, "bad-model")

partial def loop (h : IO.FS.Stream) (out : IO.FS.Stream) (st : DState) : IO Unit := do
  let line ← h.getLine
  if line.isEmpty then return ()
  let l := if line.endsWith "\n" then (line.dropEnd 1).toString else line
  let (st', o) := dispatch st (l.splitOn "\t")
  out.putStrLn o
  loop h out st'

def main : IO Unit := do
  let stdin ← IO.getStdin
  let stdout ← IO.getStdout
  loop stdin stdout {}
