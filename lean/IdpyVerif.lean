import IdpyVerif.Base
import IdpyVerif.Props.C02
import IdpyVerif.Props.C03
import IdpyVerif.Props.C05
import IdpyVerif.Props.C14
import IdpyVerif.Props.C17
