import IdpyVerif.Base
import IdpyVerif.Model.LV
import IdpyVerif.Proofs.LV
